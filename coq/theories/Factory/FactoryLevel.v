(* Whole-factory invariant for C18: in every reachable, un-crashed world of every configuration the
   occupancy an edge's time-average accumulator is integrating (its last recorded level) is the true
   number of items in the edge -- the level is re-recorded at every change of occupancy.  Lifted
   through all process blocks with the tactic of FactoryInv.v. *)
From Coq Require Import List ZArith Lia Bool Arith.
From RecordUpdate Require Import RecordUpdate.
From FV Require Import ListLemmas ListLemmas2 Kernel SrcFragments Lens World Factory.
From FV Require FactoryInv TBuffer.
From FV Require StoreB StoreBInv.
Import ListNotations.
Open Scope Z_scope.

Definition occ (s : StoreB.store) : nat := (length (StoreB.transit s) + length (StoreB.ready s))%nat.
Definition EOK (ed : edge) : Prop := elastn ed = Z.of_nat (occ (est ed)).
Definition EC (w : world) : Prop := wcrash w = None -> Forall EOK (wedges w).

(* ------------------------------------------------------------------ occupancy of a store under its operations *)
Definition neutral (o : StoreB.op) : bool :=
  match o with StoreB.Put _ _ _ | StoreB.Get _ _ | StoreB.Ready _ => false | _ => true end.

Lemma tp_occ s : occ (fst (StoreB.trig_put s)) = occ s.
Proof. destruct (StoreBInv.trig_put_fields s) as (_ & A & B & _). unfold occ. rewrite A, B. reflexivity. Qed.
Lemma tg_occ s s' ts : StoreB.trig_get s = Some (s', ts) -> occ s' = occ s.
Proof. intros E. destruct (StoreBInv.trig_get_fields _ _ _ E) as (_ & A & B & _). unfold occ. rewrite A, B. reflexivity. Qed.

Lemma after_get_occ s0 r x s' r' ts : (forall s2 ts2, x = Some (s2, ts2) -> occ s2 = occ s0) ->
  StoreB.after_get s0 r x = (s', r', ts) -> occ s' = occ s0.
Proof. unfold StoreB.after_get. intros K. destruct x as [[s2 ts2]|]; intros [= <- _ _]; auto. eapply K; eauto. Qed.

Lemma neutral_occ s o s' r ts : neutral o = true -> StoreB.step s o = (s', r, ts) -> occ s' = occ s.
Proof.
  intros N. destruct o; try discriminate; simpl.
  - destruct (StoreB.trig_put _) as [s2 ts2] eqn:E. intros [= <- _ _].
    apply (f_equal fst) in E. simpl in E. subst s2. rewrite tp_occ. reflexivity.
  - apply after_get_occ. intros s2 ts2 E. apply tg_occ in E. rewrite E. reflexivity.
  - destruct (existsb _ (StoreB.putq s)).
    + destruct (StoreB.trig_put _) as [s2 ts2] eqn:E. intros [= <- _ _].
      apply (f_equal fst) in E. simpl in E. subst s2. rewrite tp_occ. reflexivity.
    + destruct (existsb _ (StoreB.putres s)).
      * destruct (StoreB.trig_put _) as [s2 ts2] eqn:E. intros [= <- _ _].
        apply (f_equal fst) in E. simpl in E. subst s2. rewrite tp_occ. reflexivity.
      * intros [= <- _ _]. reflexivity.
  - destruct (existsb _ (StoreB.getq s)).
    + apply after_get_occ. intros s2 ts2 E. apply tg_occ in E. rewrite E. reflexivity.
    + destruct (index_where _ _); [|intros [= <- _ _]; reflexivity].
      destruct (nth_error _ _) as [[? it]|]; [|intros [= <- _ _]; reflexivity].
      destruct (existsb _ _); [|intros [= <- _ _]; reflexivity].
      apply after_get_occ. intros s2 ts2 E. apply tg_occ in E. rewrite E. reflexivity.
  - intros [= <- _ _]. reflexivity.
  - destruct (StoreB.trig_put s) as [s2 ts2] eqn:E. intros [= <- _ _].
    apply (f_equal fst) in E. simpl in E. subst s2. rewrite tp_occ. reflexivity.
  - destruct (_ <=? _)%nat; intros [= <- _ _]; reflexivity.
Qed.

Lemma put_occ s p t i s' r ts : StoreB.step s (StoreB.Put p t i) = (s', r, ts) ->
  (r = StoreB.OOk -> occ s' = S (occ s)) /\ (r <> StoreB.OOk -> occ s' = occ s).
Proof.
  intros E. destruct (TBuffer.put_shape _ _ _ _ _ _ _ E) as (A & B & C). unfold occ. rewrite A. split; intros H.
  - rewrite (B H), app_length. simpl. lia.
  - rewrite (C H). reflexivity.
Qed.

Lemma get_occ s p t s' r ts : StoreB.step s (StoreB.Get p t) = (s', r, ts) ->
  match r with StoreB.OItem _ => S (occ s') = occ s | _ => s' = s end.
Proof.
  simpl. destruct (existsb _ (StoreB.getres s)); [|intros [= <- <- _]; reflexivity].
  destruct (index_where _ _); [|intros [= <- <- _]; reflexivity].
  destruct (nth_error _ _) as [[? it]|]; [|intros [= <- <- _]; reflexivity].
  destruct (existsb (Nat.eqb it) (StoreB.ready s)) eqn:EX; [|intros [= <- <- _]; reflexivity].
  destruct (StoreB.trig_put _) as [s2 ts2] eqn:E. intros [= <- <- _].
  apply (f_equal fst) in E. simpl in E. subst s2. rewrite tp_occ. unfold occ. simpl.
  pose proof (remove_first_len_ex (Nat.eqb it) (StoreB.ready s) EX). lia.
Qed.

Lemma ready_occ s i s' r ts : StoreB.step s (StoreB.Ready i) = (s', r, ts) ->
  match r with StoreB.OOk => occ s' = occ s | StoreB.OErr _ => True | _ => False end.
Proof.
  simpl. destruct (existsb (Nat.eqb i) (StoreB.transit s)) eqn:EX; [|intros [= _ <- _]; exact I].
  destruct (StoreB.ready_guard _ _); [|intros [= _ <- _]; exact I].
  destruct (StoreB.trig_get _) as [[s2 ts2]|] eqn:E; [|intros [= _ <- _]; exact I].
  destruct (StoreB.trig_put s2) as [s3 ts3] eqn:E3. intros [= <- <- _].
  apply (f_equal fst) in E3. simpl in E3. subst s3. rewrite tp_occ. rewrite (tg_occ _ _ _ E).
  unfold occ. simpl. rewrite app_length. simpl.
  pose proof (remove_first_len_ex (Nat.eqb i) (StoreB.transit s) EX). lia.
Qed.

(* ------------------------------------------------------------------ the world's primitives *)
Create HintDb edb.

Lemma crashw_e w c : EC (crashw w c).
Proof.
  unfold EC, crashw. destruct (wcrash w) eqn:E; [rewrite E; discriminate|]. cbn. discriminate.
Qed.
(* once crashed, always crashed: what a primitive may do to the crash flag *)
Lemma EC_of w w' : (wcrash w' = None -> wcrash w = None) -> wedges w' = wedges w -> EC w -> EC w'.
Proof. unfold EC. intros A B H C. rewrite B. auto. Qed.

Lemma upd_forall {A} (P : A -> Prop) n f : forall l, Forall P l -> (forall x, nth_error l n = Some x -> P x -> P (f x)) -> Forall P (upd n f l).
Proof.
  induction n as [|n IH]; intros [|y l] H K; simpl; auto; inversion H; subst; constructor; auto.
Qed.

Lemma upd_edge_all w e f : (forall x, EOK x -> EOK (f x)) -> EC w -> EC (upd_edge w e f).
Proof. unfold EC, upd_edge. intros K H C. cbn [wedges set]. simpl. apply upd_forall; auto. Qed.
Lemma upd_edge_at w e f : (EOK (get_edge w e) -> EOK (f (get_edge w e))) -> EC w -> EC (upd_edge w e f).
Proof.
  unfold EC, upd_edge. intros K H C. cbn [wedges set]. simpl. apply upd_forall; auto.
  intros x E Hx. unfold get_edge in K. rewrite (nth_error_nth _ _ edge0 E) in K. auto.
Qed.
Lemma EC_get w e : EC w -> wcrash w = None -> EOK (get_edge w e).
Proof.
  unfold EC, get_edge. intros H C. specialize (H C). destruct (nth_error (wedges w) e) as [x|] eqn:E.
  - rewrite (nth_error_nth _ _ edge0 E). eapply Forall_forall; [exact H|]. eapply nth_error_In; eauto.
  - rewrite nth_overflow; [|apply nth_error_None; exact E]. unfold EOK, edge0, occ; simpl. reflexivity.
Qed.

Lemma logw_e w x : EC w -> EC (logw w x).
Proof. auto. Qed.
Lemma upd_node_e w e f : EC w -> EC (upd_node w e f).
Proof. auto. Qed.
Lemma upd_proc_e w e f : EC w -> EC (upd_proc w e f).
Proof. auto. Qed.
Lemma upd_item_e w e f : EC w -> EC (upd_item w e f).
Proof. auto. Qed.
Lemma setpc_e w p pc : EC w -> EC (setpc w p pc).
Proof. auto. Qed.
#[local] Hint Resolve crashw_e logw_e upd_node_e upd_proc_e upd_item_e setpc_e : edb.
Ltac eok_side :=
  let x := fresh in let Hx := fresh in intros x Hx;
  first [exact Hx
        | repeat (match goal with
                  | |- context [if ?b then _ else _] => destruct b
                  | |- context [match ?b with _ => _ end] => destruct b
                  end); exact Hx].
#[local] Hint Extern 3 (EC (upd_edge _ _ _)) => (apply upd_edge_all; [eok_side|]) : edb.




Lemma w_succeed_e w e s : EC w -> EC (w_succeed w e s).
Proof.
  unfold w_succeed. intros H. destruct (succeed (wk w) e) eqn:E; [exact H|apply crashw_e; auto].
Qed.
#[local] Hint Resolve w_succeed_e : edb.

Lemma w_succeed_all_e es : forall w, EC w -> EC (w_succeed_all w es).
Proof. unfold w_succeed_all. induction es as [|e es IH]; simpl; auto. intros w H. apply IH. auto with edb. Qed.
#[local] Hint Resolve w_succeed_all_e : edb.

Lemma w_event_e w w1 e : w_event w = (w1, e) -> EC w -> EC w1.
Proof. unfold w_event. simpl. intros [= <- _] H. exact H. Qed.


Lemma w_timeout_e w d w1 e : w_timeout w d = (w1, e) -> EC w -> EC w1.
Proof.
  unfold w_timeout. destruct (d <? 0).
  - intros [= <- _] H. auto with edb.
  - destruct (timeout (wk w) d) as [k e0]. intros [= <- _] H. exact H.
Qed.




Lemma w_any_of_e w es w1 c : w_any_of w es = (w1, c) -> EC w -> EC w1.
Proof.
  unfold w_any_of. destruct (any_of (wk w) es) as [k e0]. intros [= <- _] H. exact H.
Qed.

Lemma spawn_e w p w1 pid d : spawn w p = (w1, pid, d) -> EC w -> EC w1.
Proof.
  unfold spawn. intros E H.
  destruct (w_event w) as [wa done] eqn:E1. destruct (w_event wa) as [wb ini] eqn:E2.
  inversion E; subst. clear E.
  assert (EC wb) as Hb by (eapply w_event_e; [exact E2|]; eapply w_event_e; [exact E1|]; exact H). exact Hb.
Qed.

Lemma nth_upd_same {A} n (f : A -> A) : forall l d, (n < length l)%nat -> nth n (upd n f l) d = f (nth n l d).
Proof. induction n as [|n IH]; intros [|x l] d H; simpl in *; try lia; auto. apply IH. lia. Qed.
Lemma upd_over {A} n (f : A -> A) : forall l, (length l <= n)%nat -> upd n f l = l.
Proof. induction n as [|n IH]; intros [|x l] H; simpl in *; try lia; auto. f_equal. apply IH. lia. Qed.

Lemma upd_id {A} n : forall (l : list A), upd n (fun x => x) l = l.
Proof. induction n as [|n IH]; intros [|x l]; simpl; auto. f_equal. apply IH. Qed.

Lemma e_update_level_e w e : EC w -> EC (e_update_level w e).
Proof.
  intros H. unfold e_update_level. apply upd_edge_at; auto. intros _. unfold EOK, occ. cbn. rewrite Nat2Z.inj_add. reflexivity.
Qed.

(* replacing the store of edge e by one with the same occupancy *)
Lemma set_est_e w e s' : EC w -> (wcrash w = None -> occ s' = occ (est (get_edge w e))) ->
  EC (upd_edge w e (fun x => x <| est := s' |>)).
Proof.
  intros H K. unfold EC, upd_edge. cbn [wedges wcrash set]. simpl. intros C. apply upd_forall; [apply H, C|].
  intros x E Hx. unfold EOK in *. cbn. rewrite Hx. f_equal. specialize (K C). unfold get_edge in K.
  rewrite (nth_error_nth _ _ edge0 E) in K. symmetry. exact K.
Qed.
(* replacing it by any store and re-recording the level, as _do_put / _do_get do *)
Lemma upd_upd {A} n (f g : A -> A) : forall l, upd n g (upd n f l) = upd n (fun x => g (f x)) l.
Proof. induction n as [|n IH]; intros [|x l]; simpl; auto. f_equal. apply IH. Qed.
Lemma set_est_level_e w e s' : EC w -> EC (e_update_level (upd_edge w e (fun x => x <| est := s' |>)) e).
Proof.
  intros H. unfold EC, e_update_level, upd_edge, get_edge. cbn [wedges wcrash set]. simpl. intros C. specialize (H C).
  destruct (Nat.ltb_spec e (length (wedges w))) as [L|L].
  - rewrite upd_upd. apply upd_forall; auto.
    intros x E _. unfold EOK, occ. cbn. rewrite nth_upd_same by exact L. cbn. rewrite Nat2Z.inj_add. reflexivity.
  - rewrite (upd_over e _ (wedges w)) by exact L. rewrite upd_over by exact L. exact H.
Qed.

Lemma store_op_e w e o w1 r ts : store_op w e o = (w1, r, ts) -> neutral o = true -> EC w -> EC w1.
Proof.
  unfold store_op. destruct (StoreB.step _ _) as [[s' r0] ts0] eqn:E. intros [= <- _ _] N H.
  apply set_est_e; auto. intros _. eapply neutral_occ; eauto.
Qed.

Lemma out_err_e w r s : EC w -> EC (out_err w r s).
Proof. unfold out_err. intros H. destruct r; auto. destruct e; auto with edb. Qed.
#[local] Hint Resolve out_err_e : edb.

Lemma e_reserve_put_e w e p w1 t : e_reserve_put w e p = (w1, t) -> EC w -> EC w1.
Proof.
  unfold e_reserve_put. intros E H.
  destruct (w_event w) as [wa ev] eqn:E1. destruct (store_op wa e (StoreB.Sync ev)) as [[wb r1] t1] eqn:E2.
  destruct (store_op wb e (StoreB.RPut p 0)) as [[wc r2] t2] eqn:E3. inversion E; subst.
  apply w_succeed_all_e. eapply store_op_e; [exact E3|reflexivity|]. eapply store_op_e; [exact E2|reflexivity|]. eapply w_event_e; eauto.
Qed.

Lemma e_reserve_get_e w e p w1 t : e_reserve_get w e p = (w1, t) -> EC w -> EC w1.
Proof.
  unfold e_reserve_get. intros E H.
  destruct (w_event w) as [wa ev] eqn:E1. destruct (store_op wa e (StoreB.Sync ev)) as [[wb r1] t1] eqn:E2.
  destruct (store_op wb e (StoreB.RGet p 0)) as [[wc r2] t2] eqn:E3. inversion E; subst.
  apply w_succeed_all_e. eapply store_op_e; [exact E3|reflexivity|]. eapply store_op_e; [exact E2|reflexivity|]. eapply w_event_e; eauto.
Qed.

Lemma e_cancel_put_e w e t : EC w -> EC (e_cancel_put w e t).
Proof.
  unfold e_cancel_put. intros H. destruct (store_op w e (StoreB.CPut t)) as [[w1 r] ts] eqn:E.
  apply w_succeed_all_e, out_err_e. eapply store_op_e; [exact E|reflexivity|exact H].
Qed.
Lemma e_cancel_get_e w e t : EC w -> EC (e_cancel_get w e t).
Proof.
  unfold e_cancel_get. intros H. destruct (store_op w e (StoreB.CGet t)) as [[w1 r] ts] eqn:E.
  apply w_succeed_all_e, out_err_e. eapply store_op_e; [exact E|reflexivity|exact H].
Qed.
#[local] Hint Resolve e_cancel_put_e e_cancel_get_e : edb.

Lemma fleet_after_put_e w e : EC w -> EC (fleet_after_put w e).
Proof.
  unfold fleet_after_put. intros H. destruct (_ =? _)%nat; auto.
  destruct (e_trig _); auto with edb.
Qed.
#[local] Hint Resolve fleet_after_put_e : edb.

Lemma put_res s p t i s' r ts : StoreB.step s (StoreB.Put p t i) = (s', r, ts) -> r = StoreB.OOk \/ exists e, r = StoreB.OErr e.
Proof.
  simpl. unfold StoreB.after_get. destruct (existsb _ _); [|intros [= _ <- _]; right; eauto].
  destruct (_ <? _)%nat; [|intros [= _ <- _]; right; eauto].
  destruct (StoreB.s_kind s).
  all: try (destruct (StoreB.trig_get _) as [[s2 ts2]|]; intros [= _ <- _]; [left; auto|right; eauto]).
  destruct (StoreB.trig_get _) as [[s3 ts1]|]; [|intros [= _ <- _]; right; eauto].
  destruct (StoreB.trig_get s3) as [[s4 ts2]|]; intros [= _ <- _]; [left; auto|right; eauto].
Qed.
Lemma out_err_crash w e s : EC (out_err w (StoreB.OErr e) s).
Proof. unfold out_err. destruct e; apply crashw_e. Qed.

Lemma e_put_e w e p t i : EC w -> EC (e_put w e p t i).
Proof.
  unfold e_put. intros H. destruct (ek (get_edge w e)).
  - destruct (_ <? 0); [auto with edb|].
    destruct (StoreB.step _ _) as [[s' r] ts] eqn:ES. destruct (put_res _ _ _ _ _ _ _ ES) as [->|(er & ->)].
    + destruct (spawn _ _) as [[w2 pid] d] eqn:E. apply logw_e, w_succeed_all_e.
      eapply spawn_e; [exact E|]. apply set_est_level_e. auto with edb.
    + apply out_err_crash.
  - destruct (StoreB.step _ _) as [[s' r] ts] eqn:ES. destruct (put_res _ _ _ _ _ _ _ ES) as [->|(er & ->)].
    + apply logw_e, fleet_after_put_e, w_succeed_all_e, set_est_level_e, H.
    + apply out_err_crash.
Qed.
#[local] Hint Resolve e_put_e : edb.

Lemma e_get_e w e p t n w1 r : e_get w e p t n = (w1, r) -> EC w -> EC w1.
Proof.
  unfold e_get. intros E H. destruct (StoreB.step _ _) as [[s' r0] ts] eqn:ES. pose proof (get_occ _ _ _ _ _ _ ES) as G.
  destruct r0 as [?| |?|e0]; inversion E; subst; clear E.
  - simpl. apply set_est_e; auto.
  - simpl. apply set_est_e; auto.
  - apply logw_e, w_succeed_all_e, set_est_level_e, H.
  - apply out_err_crash.
Qed.

Lemma update_state_e w n s : EC w -> EC (update_state w n s).
Proof. unfold update_state. intros H. destruct (nlast _); auto with edb. Qed.
#[local] Hint Resolve update_state_e : edb.

Lemma draw_delay_e w n w1 d : draw_delay w n = (w1, d) -> EC w -> EC w1.
Proof. unfold draw_delay. intros [= <- _] H. auto with edb. Qed.

Lemma draw_sel_e w n o w1 v : draw_sel w n o = (w1, v) -> EC w -> EC w1.
Proof.
  unfold draw_sel. intros E H. destruct (if o then noutsel _ else ninsel _); inversion E; subst; auto with edb.
Qed.

Lemma cancel_others_e l : forall w keep (put : bool), EC w ->
  EC (fold_left (fun (w : world) (et : nat * nat) => let '(e, t) := et in
                             if Nat.eqb t keep then w else if put then e_cancel_put w e t else e_cancel_get w e t) l w).
Proof.
  induction l as [|[e t] l IH]; simpl; auto. intros w keep put H. apply IH.
  destruct (Nat.eqb t keep); auto. destruct put; auto with edb.
Qed.
Lemma cancel_others_ee w es ts keep put : EC w -> EC (cancel_others w es ts keep put).
Proof. unfold cancel_others. apply cancel_others_e. Qed.
#[local] Hint Resolve cancel_others_ee : edb.

Lemma reserve_all_e pid (put : bool) es : forall w l w1 l1,
  fold_left (fun (acc : world * list nat) (e : nat) => let '(w, l) := acc in
                          let '(w', t) := if put then e_reserve_put w e pid else e_reserve_get w e pid in (w', l ++ [t]))
            es (w, l) = (w1, l1) -> EC w -> EC w1.
Proof.
  induction es as [|e es IH]; simpl; intros w l w1 l1 E H.
  - inversion E; subst; auto.
  - destruct put.
    + destruct (e_reserve_put w e pid) as [w' t] eqn:E1. eapply IH; [exact E|]. eapply e_reserve_put_e; eauto.
    + destruct (e_reserve_get w e pid) as [w' t] eqn:E1. eapply IH; [exact E|]. eapply e_reserve_get_e; eauto.
Qed.
Lemma reserve_all_ee w pid es put w1 l1 : reserve_all w pid es put = (w1, l1) -> EC w -> EC w1.
Proof. unfold reserve_all. apply reserve_all_e. Qed.

Lemma set_creation_e w i n : EC w -> EC (set_creation w i n).
Proof. intros H. unfold set_creation. auto 8 with edb. Qed.
Lemma update_state_rep_e w n : EC w -> EC (update_state_rep w n).
Proof.
  unfold update_state_rep. intros H. destruct (nlast _); auto with edb.
  destruct (nsrep _). destruct (count_threads _). destruct (_ >? _); auto with edb.
Qed.
Lemma occupancy_e w n a : EC w -> EC (occupancy w n a).
Proof. intros H. unfold occupancy. auto 8 with edb. Qed.
Lemma set_thread_e w n p b : EC w -> EC (set_thread w n p b).
Proof. intros H. unfold set_thread. auto 8 with edb. Qed.
Lemma add_blocked_time_e w p n : EC w -> EC (add_blocked_time w p n).
Proof. intros H. unfold add_blocked_time. auto 8 with edb. Qed.
#[local] Hint Resolve set_creation_e update_state_rep_e occupancy_e set_thread_e add_blocked_time_e : edb.

(* tactic: split every let / match / if of a block, derive EC of each intermediate world from the
   equation that introduced it *)
Ltac kstep :=
  match goal with
  | E : w_timeout ?w _ = (?w1, _) |- _ => assert (EC w1) by (eapply w_timeout_e; [exact E|auto 14 with edb]); clear E
  | E : w_event ?w = (?w1, _) |- _ => assert (EC w1) by (eapply w_event_e; [exact E|auto 14 with edb]); clear E
  | E : w_any_of ?w _ = (?w1, _) |- _ => assert (EC w1) by (eapply w_any_of_e; [exact E|auto 14 with edb]); clear E
  | E : spawn ?w _ = (?w1, _, _) |- _ => assert (EC w1) by (eapply spawn_e; [exact E|auto 14 with edb]); clear E
  | E : store_op ?w _ _ = (?w1, _, _) |- _ => assert (EC w1) by (eapply store_op_e; [exact E|reflexivity|auto 14 with edb]); clear E
  | E : e_reserve_put ?w _ _ = (?w1, _) |- _ => assert (EC w1) by (eapply e_reserve_put_e; [exact E|auto 14 with edb]); clear E
  | E : e_reserve_get ?w _ _ = (?w1, _) |- _ => assert (EC w1) by (eapply e_reserve_get_e; [exact E|auto 14 with edb]); clear E
  | E : e_get ?w _ _ _ _ = (?w1, _) |- _ => assert (EC w1) by (eapply e_get_e; [exact E|auto 14 with edb]); clear E
  | E : draw_delay ?w _ = (?w1, _) |- _ => assert (EC w1) by (eapply draw_delay_e; [exact E|auto 14 with edb]); clear E
  | E : draw_sel ?w _ _ = (?w1, _) |- _ => assert (EC w1) by (eapply draw_sel_e; [exact E|auto 14 with edb]); clear E
  | E : reserve_all ?w _ _ _ = (?w1, _) |- _ => assert (EC w1) by (eapply reserve_all_ee; [exact E|auto 14 with edb]); clear E
  end.

Ltac ksplit :=
  repeat (match goal with
          | |- context [let '(_, _) := ?x in _] => destruct x as [? ?] eqn:?; try kstep
          | |- context [match ?x with _ => _ end] => destruct x eqn:?; try kstep
          end; simpl fst).

Ltac kauto := ksplit; simpl; auto 10 with edb.

Ltac ksplit2 :=
  repeat (cbv zeta;
          match goal with
          | |- context [match ?x with _ => _ end] => destruct x eqn:?; repeat kstep; simpl fst
          end).
Ltac kgo := ksplit2; simpl; auto 12 with edb.

Lemma source_loop_e w p n : EC w -> EC (fst (source_loop w p n)).
Proof. intros H. unfold source_loop. kgo. Qed.

Lemma spawn_push_e w n i e b : EC w -> EC (fst (spawn_push w n i e b)).
Proof. intros H. unfold spawn_push. kgo. Qed.

#[local] Hint Resolve source_loop_e spawn_push_e : edb.

Lemma eqform {A} (f : world * A) w1 a : f = (w1, a) -> EC (fst f) -> EC w1.
Proof. intros ->. auto. Qed.

Ltac kstep2 :=
  match goal with
  | E : spawn_push ?w _ _ _ _ = (?w1, _) |- _ =>
      assert (EC w1) by (eapply eqform; [exact E|apply spawn_push_e; auto 14 with edb]); clear E
  end.

Ltac ksplit3 :=
  repeat (cbv zeta;
          match goal with
          | |- context [match ?x with _ => _ end] => destruct x eqn:?; repeat (kstep || kstep2); cbn [fst snd]
          end).
#[local] Hint Extern 6 (EC (set _ _ _)) => (unfold EC; cbn [wedges wcrash set]; progress simpl) : edb.
Ltac kgo3 := ksplit3; cbn [fst snd]; auto 14 with edb.

Lemma source_block_e w p : EC w -> EC (fst (source_block w p)).
Proof. intros H. unfold source_block. kgo3. Qed.

Lemma push_block_e w p : EC w -> EC (fst (push_block w p)).
Proof. intros H. unfold push_block. kgo3. Qed.

(* the arrival of an item at the ready end keeps the occupancy; a refused arrival raises *)
Lemma ready_site_e w e i w1 r ts site (g : edge -> edge) :
  (forall x, est (g x) = est x /\ elastn (g x) = elastn x) ->
  EC w -> store_op w e (StoreB.Ready i) = (w1, r, ts) -> EC (out_err (upd_edge w1 e g) r site).
Proof.
  intros G H. unfold store_op. destruct (StoreB.step _ _) as [[s' r0] ts0] eqn:ES. intros [= <- <- _].
  pose proof (ready_occ _ _ _ _ _ ES) as K. destruct r0 as [?| |?|e0]; try (destruct K; fail).
  - simpl. apply upd_edge_all.
    + intros x Hx. unfold EOK in *. destruct (G x) as (-> & ->). exact Hx.
    + apply set_est_e; auto.
  - apply out_err_crash.
Qed.

Lemma ready_site_e0 w e i w1 r ts site :
  EC w -> store_op w e (StoreB.Ready i) = (w1, r, ts) -> EC (out_err w1 r site).
Proof.
  intros H. unfold store_op. destruct (StoreB.step _ _) as [[s' r0] ts0] eqn:ES. intros [= <- <- _].
  pose proof (ready_occ _ _ _ _ _ ES) as K. destruct r0 as [?| |?|e0]; try (destruct K; fail).
  - simpl. apply set_est_e; auto.
  - apply out_err_crash.
Qed.

Lemma buftimer_block_e w p : EC w -> EC (fst (buftimer_block w p)).
Proof.
  intros H. unfold buftimer_block. cbv zeta. destruct (ppc (me w p)).
  - kgo3.
  - destruct (store_op w _ _) as [[w1 r] ts] eqn:E. cbn [fst]. apply w_succeed_all_e.
    eapply ready_site_e0; [exact H|exact E].
Qed.

Lemma sink_loop_e w p n : EC w -> EC (fst (sink_loop w p n)).
Proof. intros H. unfold sink_loop. kgo3. Qed.
#[local] Hint Resolve sink_loop_e : edb.

Lemma sink_block_e w p : EC w -> EC (fst (sink_block w p)).
Proof. intros H. unfold sink_block. kgo3. Qed.


Lemma machine_request_e w p n : EC w -> EC (fst (machine_request w p n)).
Proof.
  intros H. unfold machine_request. cbv zeta.
  assert (EC (update_state_rep w n)) as H1 by auto with edb.
  destruct (res_request (wk (update_state_rep w n)) n (nres (get_node (update_state_rep w n) n))) as [[[k r] q]|] eqn:E; cbn [fst].
  - apply setpc_e, upd_proc_e. apply upd_node_e. exact H1.
  - auto with edb.
Qed.
#[local] Hint Resolve machine_request_e : edb.

Lemma machine_start_worker_e w p n i : EC w -> EC (fst (machine_start_worker w p n i)).
Proof. intros H. unfold machine_start_worker. kgo3. Qed.
#[local] Hint Resolve machine_start_worker_e : edb.

Lemma machine_block_e w p : EC w -> EC (fst (machine_block w p)).
Proof. intros H. unfold machine_block. kgo3. Qed.

Lemma worker_release_e w p n : EC w -> EC (fst (worker_release w p n)).
Proof.
  intros H. unfold worker_release. cbv zeta.
  destruct (res_release (wk w) n (nres (get_node w n)) (ptk (me w p))) as [[[k r] g]|] eqn:E; cbn [fst].
  - apply setpc_e. apply upd_node_e. exact H.
  - auto with edb.
Qed.
#[local] Hint Resolve worker_release_e : edb.

Lemma worker_block_e w p : EC w -> EC (fst (worker_block w p)).
Proof. intros H. unfold worker_block. kgo3. Qed.

Lemma fleet_loop_e w p e : EC w -> EC (fst (fleet_loop w p e)).
Proof. intros H. unfold fleet_loop. kgo3. Qed.
#[local] Hint Resolve fleet_loop_e : edb.

Lemma fleetact_block_e w p : EC w -> EC (fst (fleetact_block w p)).
Proof.
  intros H. unfold fleetact_block. cbv zeta.
  destruct (ppc (me w p)); [apply fleet_loop_e; auto|].
  destruct (StoreB.transit _) eqn:ET; [apply fleet_loop_e; auto|].
  match goal with |- context [fleet_loop (if _ then _ else ?w1) _ _] => set (wb := w1) end.
  assert (EC wb) as H1.
  { subst wb. match goal with |- EC (match ?b with _ => _ end) => destruct b end; auto.
    all: try (destruct (spawn _ _) as [[w2 pid] d] eqn:E; eapply spawn_e; [exact E|]; auto with edb). }
  clearbody wb.
  destruct (e_trig _).
  - destruct (w_event wb) as [w3 a] eqn:E2. apply fleet_loop_e.
    assert (EC w3) as H3 by (eapply w_event_e; eauto). auto with edb.
  - apply fleet_loop_e. exact H1.
Qed.

Lemma fleetmove_fold_e e l : forall w, EC w ->
  EC (fold_left (fun (w : world) (it : nat) =>
                    match wcrash w with
                    | Some _ => w
                    | None =>
                        let '(w1, r, ts) := store_op w e (StoreB.Ready it) in
                        let w2 := upd_edge w1 e (fun x => x <| eintransit ::= filter (fun t => negb (Nat.eqb t it)) |>) in
                        w_succeed_all (out_err w2 r 61) ts
                    end) l w).
Proof.
  induction l as [|x l IH]; simpl; auto. intros w H. apply IH.
  destruct (wcrash w); auto. destruct (store_op w e (StoreB.Ready x)) as [[w1 r] ts] eqn:E.
  apply w_succeed_all_e. eapply ready_site_e; [|exact H|exact E]. intros y. split; reflexivity.
Qed.

Lemma fleetmove_block_e w p : EC w -> EC (fst (fleetmove_block w p)).
Proof.
  intros H. unfold fleetmove_block. cbv zeta.
  destruct (ppc (me w p)) as [|[|?]]; cbn [fst].
  - destruct (plst (me w p)); cbn [fst]; auto. destruct (w_timeout _ _) as [w1 t] eqn:E. cbn [fst].
    apply setpc_e. eapply w_timeout_e; eauto.
  - destruct (w_timeout _ _) as [w1 t] eqn:E. cbn [fst]. apply setpc_e. eapply w_timeout_e; eauto.
  - apply fleetmove_fold_e. auto.
Qed.

Lemma check_state_e w n : EC w -> EC (check_state w n).
Proof. intros H. unfold check_state. destruct (count_threads _). kgo3. Qed.
#[local] Hint Resolve check_state_e : edb.

Lemma sc_request_e w p n pc : EC w -> EC (fst (sc_request w p n pc)).
Proof.
  intros H. unfold sc_request.
  destruct (res_request (wk w) n (nres (get_node w n))) as [[[k r] q]|] eqn:E; cbn [fst].
  - apply setpc_e, upd_proc_e. apply upd_node_e. exact H.
  - auto with edb.
Qed.
Lemma sc_release_e w p n : EC w -> EC (fst (sc_release w p n)).
Proof.
  intros H. unfold sc_release.
  destruct (res_release (wk w) n (nres (get_node w n)) (ptk (me w p))) as [[[k r] g]|] eqn:E; cbn [fst].
  - apply setpc_e. apply upd_node_e. exact H.
  - auto with edb.
Qed.
#[local] Hint Resolve sc_request_e sc_release_e : edb.

Lemma sc_dispatch_e w p n c ph : EC w -> EC (fst (sc_dispatch w p n c ph)).
Proof. intros H. unfold sc_dispatch. kgo3. Qed.
#[local] Hint Resolve sc_dispatch_e : edb.

Lemma sc_next_e w p n : EC w -> EC (fst (sc_next w p n)).
Proof. intros H. unfold sc_next. kgo3. Qed.
#[local] Hint Resolve sc_next_e : edb.

Lemma sc_worker_cont_e w p n : EC w -> EC (fst (sc_worker_cont w p n)).
Proof. intros H. unfold sc_worker_cont. kgo3. Qed.
#[local] Hint Resolve sc_worker_cont_e : edb.

Lemma sc_run_e f : forall w p n r, EC (fst r) -> EC (fst (sc_run f w p n r)).
Proof.
  induction f as [|f IH]; simpl; intros w p n r H; auto with edb.
  destruct r as [w1 y]. cbn [fst] in *. destruct (wcrash w1); auto.
  destruct (Nat.eqb _ 8); auto. apply IH. auto with edb.
Qed.

Lemma splitworker_block_e w p : EC w -> EC (fst (splitworker_block w p)).
Proof.
  intros H. unfold splitworker_block. cbv zeta. destruct (ppc (me w p)) as [|[|?]].
  - kgo3.
  - match goal with |- context [if ?b then _ else _] => destruct b end; cbn [fst]; auto with edb.
    apply sc_run_e. auto 12 with edb.
  - apply sc_run_e. auto with edb.
Qed.

Lemma combworker_block_e w p : EC w -> EC (fst (combworker_block w p)).
Proof.
  intros H. unfold combworker_block. cbv zeta. destruct (ppc (me w p)); apply sc_run_e; auto with edb.
Qed.

Lemma splitter_head_e w p n : EC w -> EC (fst (splitter_head w p n)).
Proof. intros H. unfold splitter_head. kgo3. Qed.
#[local] Hint Resolve splitter_head_e : edb.

Lemma splitter_start_e w p n pal : EC w -> EC (fst (splitter_start w p n pal)).
Proof. intros H. unfold splitter_start. kgo3. Qed.
#[local] Hint Resolve splitter_start_e : edb.

Lemma splitter_block_e w p : EC w -> EC (fst (splitter_block w p)).
Proof. intros H. unfold splitter_block. kgo3. Qed.

Lemma combiner_head_e w p n : EC w -> EC (fst (combiner_head w p n)).
Proof. intros H. unfold combiner_head. kgo3. Qed.
#[local] Hint Resolve combiner_head_e : edb.

Lemma combiner_rep_e e p k0 j : forall a, EC (fst (fst a)) -> EC (fst (fst (comb_rep e p k0 j a))).
Proof.
  induction j as [|j IH]; intros [[w0 ts] ix] H; simpl; auto.
  destruct (e_reserve_get w0 e p) as [w1 t] eqn:E. apply IH. cbn [fst]. eapply e_reserve_get_e; eauto.
Qed.

Lemma combiner_go_e rc p es : forall k acc r, EC (fst (fst acc)) -> comb_go rc p k es acc = Some r -> EC (fst (fst r)).
Proof.
  induction es as [|e es IH]; simpl; intros k acc r HA EQ.
  - inversion EQ; subst; auto.
  - destruct (nth_error rc k) as [q|]; [|discriminate]. eapply IH; [|exact EQ]. apply combiner_rep_e. exact HA.
Qed.

Lemma combiner_reserve_e w p n w1 a b : combiner_reserve w p n = Some (w1, a, b) -> EC w -> EC w1.
Proof.
  unfold combiner_reserve. intros E H.
  assert (EC (fst (fst (w1, a, b)))) as K by (eapply combiner_go_e; [|exact E]; cbn [fst]; exact H). exact K.
Qed.

Lemma combiner_loop_e w p n : EC w -> EC (fst (combiner_loop w p n)).
Proof. intros H. unfold combiner_loop. kgo3. Qed.
#[local] Hint Resolve combiner_loop_e : edb.

Lemma combiner_block_e w p : EC w -> EC (fst (combiner_block w p)).
Proof.
  intros H. unfold combiner_block. cbv zeta.
  destruct (ppc (me w p)) as [|[|[|[|[|[|?]]]]]].
  - kgo3.
  - auto with edb.
  - destruct (e_get _ _ _ _ _) as [w1 it] eqn:E. assert (EC w1) by (eapply e_get_e; eauto).
    destruct it; cbn [fst]; auto. destruct (negb _); cbn [fst]; auto with edb.
    destruct (combiner_reserve w1 p (pown (me w p))) as [[[w2 a] b]|] eqn:E2; cbn [fst]; auto with edb.
    assert (EC w2) by (eapply combiner_reserve_e; eauto).
    destruct (w_any_of w2 a) as [w3 c] eqn:E3. cbn [fst]. apply setpc_e, upd_proc_e. eapply w_any_of_e; eauto.
  - auto with edb.
  - kgo3.
  - kgo3.
  - kgo3.
Qed.

Lemma block_e w p : EC w -> EC (fst (block w p)).
Proof.
  intros H. unfold block. destruct (pkd (me w p)); cbn [fst]; auto with edb;
    first [apply source_block_e | apply machine_block_e | apply worker_block_e | apply sink_block_e | apply push_block_e
          | apply buftimer_block_e | apply fleetact_block_e | apply fleetmove_block_e | apply splitter_block_e
          | apply splitworker_block_e | apply combiner_block_e | apply combworker_block_e]; auto.
Qed.

Lemma resume_e f : forall w p, EC w -> EC (resume f w p).
Proof.
  induction f as [|f IH]; simpl; intros w p H; auto with edb.
  destruct (wcrash w); auto.
  pose proof (block_e (w <| wactive := p |>) p) as B.
  destruct (block (w <| wactive := p |>) p) as [w1 y]. cbn [fst] in B.
  assert (EC w1) as H1 by (apply B; exact H).
  destruct (wcrash w1); auto. destruct y.
  - destruct (e_proc _); [apply IH; exact H1|]. exact H1.
  - apply upd_proc_e. exact H1.
Qed.

Lemma run_cb_e w c : EC w -> EC (run_cb w c).
Proof.
  intros H. unfold run_cb. destruct (wcrash w); auto. destruct c.
  - destruct (_ <? _)%nat; [apply resume_e; auto|apply crashw_e; auto].
  - exact H.
  - destruct (res_trig_get _ _) as [[k0 r0]|] eqn:E; auto with edb; apply upd_node_e; exact H.
  - destruct (res_trig_put _ _) as [[k0 r0]|] eqn:E; auto with edb; apply upd_node_e; exact H.
  - exact H.
Qed.


Lemma run_cbs_e l : forall w, EC w -> EC (fold_left run_cb l w).
Proof. induction l as [|c l IH]; simpl; auto. intros w H. apply IH, run_cb_e, H. Qed.



(* one kernel step re-establishes the recorded level of every edge (unless the run crashed) *)
Theorem fstep_e w w' : EC w -> fstep w = Some w' -> EC w'.
Proof.
  unfold fstep. intros H. destruct (wcrash w) eqn:C; [discriminate|].
  destruct (pop (wk w)) as [[[k e] cbs]|] eqn:E; [|discriminate]. intros [= <-].
  apply run_cbs_e. unfold EC in *. cbn [wcrash wedges set]. exact H.
Qed.

Lemma mk_step_e w c : EC w -> EC (mk_step w c).
Proof.
  intros H. unfold mk_step. destruct c as [b i]. destruct b.
  - cbv zeta. match goal with |- context [spawn ?a ?b] => destruct (spawn a b) as [[w' pid] d] eqn:E end.
    eapply spawn_e; eauto.
  - destruct (ek (get_edge w i)); auto;
      destruct (w_event w) as [w1 act] eqn:E1; cbv zeta;
      match goal with |- context [spawn ?a ?b] => destruct (spawn a b) as [[w' pid] d] eqn:E end;
      (eapply spawn_e; [exact E|]); assert (EC w1) as H1 by (eapply w_event_e; eauto); auto with edb.
Qed.

Lemma mk_world_e nodes edges order : Forall EOK edges -> EC (mk_world nodes edges order).
Proof.
  unfold mk_world. intros H0.
  assert (forall l w, EC w -> EC (fold_left mk_step l w)) as G.
  { induction l as [|c l IH]; simpl; auto. intros w H. apply IH, mk_step_e, H. }
  apply G. intros _. exact H0.
Qed.

(* C18 (time-averaged occupancy), for every factory configuration whose edges start with a recorded
   level equal to their (empty) content, and every number of kernel steps: unless the run crashed,
   the level every edge's accumulator is integrating is the true number of items in the edge *)
Theorem recorded_level_is_true_level nodes edges order n :
  Forall EOK edges ->
  let w := FactoryInv.iter_fstep n (mk_world nodes edges order) in
  wcrash w = None ->
  forall i ed, nth_error (wedges w) i = Some ed ->
    elastn ed = Z.of_nat (length (StoreB.transit (est ed)) + length (StoreB.ready (est ed))).
Proof.
  intros H0.
  assert (forall m w, EC w -> EC (FactoryInv.iter_fstep m w)) as G.
  { induction m as [|m IH]; simpl; intros w H; auto. destruct (fstep w) as [w'|] eqn:E; auto.
    apply IH. eapply fstep_e; eauto. }
  intros w C i ed E. pose proof (G n _ (mk_world_e nodes edges order H0) C) as K.
  eapply Forall_forall in K; [exact K|]. eapply nth_error_In; eauto.
Qed.

(* an edge as the library creates it: empty store, recorded level 0 *)
Lemma fresh_edge_ok ed : StoreB.transit (est ed) = [] -> StoreB.ready (est ed) = [] -> elastn ed = 0 -> EOK ed.
Proof. intros A B C. unfold EOK, occ. rewrite A, B, C. reflexivity. Qed.
