(* Whole-factory invariants, for every reachable world of every configuration:
   KI  -- the kernel invariant (queue sorted by time, nothing scheduled in the past), hence
          simulated time never decreases (C19) and no block ever asks for a negative delay. *)
From Coq Require Import List ZArith Lia Bool Arith.
From RecordUpdate Require Import RecordUpdate.
From FV Require Import ListLemmas Kernel SrcFragments Lens World Factory.
From FV Require StoreB.
Import ListNotations.
Open Scope Z_scope.

Section AtTime.
Variable tnow : Z.

(* kernel invariant + "the clock shows t": no operation other than popping the queue moves the clock *)
Definition KT (k : kern) : Prop := KInv k /\ now k = tnow.
Definition KI (w : world) : Prop := KT (wk w).

Lemma schedule_kt k e p d : 0 <= d -> KT k -> KT (schedule k e p d).
Proof. intros Hd (A & B). split; [apply schedule_kinv; auto|exact B]. Qed.

Create HintDb kdb.

Lemma KI_same w w' : wk w' = wk w -> KI w -> KI w'.
Proof. unfold KI. intros ->. auto. Qed.

Lemma crashw_k w c : KI w -> KI (crashw w c).
Proof. unfold crashw. destruct (wcrash w); auto. Qed.
Lemma logw_k w x : KI w -> KI (logw w x).
Proof. auto. Qed.
Lemma upd_edge_k w e f : KI w -> KI (upd_edge w e f).
Proof. auto. Qed.
Lemma upd_node_k w e f : KI w -> KI (upd_node w e f).
Proof. auto. Qed.
Lemma upd_proc_k w e f : KI w -> KI (upd_proc w e f).
Proof. auto. Qed.
Lemma upd_item_k w e f : KI w -> KI (upd_item w e f).
Proof. auto. Qed.
Lemma setpc_k w p pc : KI w -> KI (setpc w p pc).
Proof. auto. Qed.
#[local] Hint Resolve crashw_k logw_k upd_edge_k upd_node_k upd_proc_k upd_item_k setpc_k : kdb.

Lemma mark_trig_kinv k e : KT k -> KT (mark_trig k e).
Proof. auto. Qed.
Lemma add_cb_kinv k e c : KT k -> KT (add_cb k e c).
Proof. auto. Qed.
Lemma new_event_kinv k : KT k -> KT (fst (new_event k)).
Proof. auto. Qed.

Lemma succeed_kinv k e k' : succeed k e = Some k' -> KT k -> KT k'.
Proof.
  unfold succeed. destruct (e_trig (get_ev k e)); [discriminate|]. intros [= <-] H.
  apply schedule_kt; [lia|]. apply mark_trig_kinv, H.
Qed.

Lemma w_succeed_k w e s : KI w -> KI (w_succeed w e s).
Proof.
  unfold w_succeed. intros H. destruct (succeed (wk w) e) eqn:E; [|apply crashw_k; auto].
  unfold KI; simpl. eapply succeed_kinv; eauto.
Qed.
#[local] Hint Resolve w_succeed_k : kdb.

Lemma w_succeed_all_k es : forall w, KI w -> KI (w_succeed_all w es).
Proof. unfold w_succeed_all. induction es as [|e es IH]; simpl; auto. intros w H. apply IH. auto with kdb. Qed.
#[local] Hint Resolve w_succeed_all_k : kdb.

Lemma w_event_k w w1 e : w_event w = (w1, e) -> KI w -> KI w1.
Proof. unfold w_event. simpl. intros [= <- _] H. exact H. Qed.

Lemma timeout_kinv k d : 0 <= d -> KT k -> KT (fst (timeout k d)).
Proof. intros Hd H. unfold timeout. simpl. apply schedule_kt; auto. Qed.

Lemma w_timeout_k w d w1 e : w_timeout w d = (w1, e) -> KI w -> KI w1.
Proof.
  unfold w_timeout. destruct (Z.ltb_spec d 0) as [Hd|Hd].
  - intros [= <- _] H. auto with kdb.
  - intros E H. pose proof (timeout_kinv (wk w) d Hd H) as K.
    destruct (timeout (wk w) d) as [k e0]. inversion E; subst. exact K.
Qed.

Lemma check_kinv k c : KT k -> KT (check k c).
Proof. unfold check. intros H. destruct (e_trig (get_ev k c)); auto. apply schedule_kt; [lia|]. auto. Qed.

Lemma any_of_fold_kinv c l : forall k0, KT k0 ->
  KT (fold_left (fun k1 e1 => if e_proc (get_ev k1 e1) then check k1 c else add_cb k1 e1 (CbCheck c)) l k0).
Proof.
  induction l as [|x l IH]; simpl; intros k0 H0; auto. apply IH.
  destruct (e_proc (get_ev k0 x)); [apply check_kinv|apply add_cb_kinv]; auto.
Qed.

Lemma any_of_kinv k es : KT k -> KT (fst (any_of k es)).
Proof.
  intros H. unfold any_of. destruct (new_event k) as [k1 c] eqn:E.
  assert (KT k1) as H1 by (apply (f_equal fst) in E; simpl in E; subst k1; auto).
  destruct es as [|e es].
  - simpl. apply schedule_kt; [lia|]. auto.
  - simpl fst. apply any_of_fold_kinv.
    destruct (e_proc (get_ev k1 e)); [apply check_kinv|apply add_cb_kinv]; auto.
Qed.

Lemma w_any_of_k w es w1 c : w_any_of w es = (w1, c) -> KI w -> KI w1.
Proof.
  unfold w_any_of. intros E H. pose proof (any_of_kinv (wk w) es H) as K.
  destruct (any_of (wk w) es) as [k e0]. inversion E; subst. exact K.
Qed.

Lemma spawn_k w p w1 pid d : spawn w p = (w1, pid, d) -> KI w -> KI w1.
Proof.
  unfold spawn. intros E H.
  destruct (w_event w) as [wa done] eqn:E1. destruct (w_event wa) as [wb ini] eqn:E2.
  inversion E; subst. clear E. unfold KI. simpl.
  apply schedule_kt; [lia|]. apply mark_trig_kinv, add_cb_kinv.
  eapply w_event_k; [exact E2|]. eapply w_event_k; [exact E1|]. exact H.
Qed.

Lemma e_update_level_k w e : KI w -> KI (e_update_level w e).
Proof. auto. Qed.
#[local] Hint Resolve e_update_level_k : kdb.

Lemma store_op_k w e o w1 r ts : store_op w e o = (w1, r, ts) -> KI w -> KI w1.
Proof. unfold store_op. destruct (StoreB.step _ _) as [[s' r0] ts0]. intros [= <- _ _] H. auto. Qed.

Lemma out_err_k w r s : KI w -> KI (out_err w r s).
Proof. unfold out_err. intros H. destruct r; auto. destruct e; auto with kdb. Qed.
#[local] Hint Resolve out_err_k : kdb.

Lemma e_reserve_put_k w e p w1 t : e_reserve_put w e p = (w1, t) -> KI w -> KI w1.
Proof.
  unfold e_reserve_put. intros E H.
  destruct (w_event w) as [wa ev] eqn:E1. destruct (store_op wa e (StoreB.Sync ev)) as [[wb r1] t1] eqn:E2.
  destruct (store_op wb e (StoreB.RPut p 0)) as [[wc r2] t2] eqn:E3. inversion E; subst.
  apply w_succeed_all_k. eapply store_op_k; [exact E3|]. eapply store_op_k; [exact E2|]. eapply w_event_k; eauto.
Qed.

Lemma e_reserve_get_k w e p w1 t : e_reserve_get w e p = (w1, t) -> KI w -> KI w1.
Proof.
  unfold e_reserve_get. intros E H.
  destruct (w_event w) as [wa ev] eqn:E1. destruct (store_op wa e (StoreB.Sync ev)) as [[wb r1] t1] eqn:E2.
  destruct (store_op wb e (StoreB.RGet p 0)) as [[wc r2] t2] eqn:E3. inversion E; subst.
  apply w_succeed_all_k. eapply store_op_k; [exact E3|]. eapply store_op_k; [exact E2|]. eapply w_event_k; eauto.
Qed.

Lemma e_cancel_put_k w e t : KI w -> KI (e_cancel_put w e t).
Proof.
  unfold e_cancel_put. intros H. destruct (store_op w e (StoreB.CPut t)) as [[w1 r] ts] eqn:E.
  apply w_succeed_all_k, out_err_k. eapply store_op_k; eauto.
Qed.
Lemma e_cancel_get_k w e t : KI w -> KI (e_cancel_get w e t).
Proof.
  unfold e_cancel_get. intros H. destruct (store_op w e (StoreB.CGet t)) as [[w1 r] ts] eqn:E.
  apply w_succeed_all_k, out_err_k. eapply store_op_k; eauto.
Qed.
#[local] Hint Resolve e_cancel_put_k e_cancel_get_k : kdb.

Lemma fleet_after_put_k w e : KI w -> KI (fleet_after_put w e).
Proof.
  unfold fleet_after_put. intros H. destruct (_ =? _)%nat; auto.
  destruct (e_trig _); auto with kdb.
Qed.
#[local] Hint Resolve fleet_after_put_k : kdb.

Lemma e_put_k w e p t i : KI w -> KI (e_put w e p t i).
Proof.
  unfold e_put. intros H. destruct (ek (get_edge w e)).
  - destruct (_ <? 0); [auto with kdb|].
    destruct (StoreB.step _ _) as [[s' r] ts]. destruct r; auto with kdb.
    destruct (spawn _ _) as [[w2 pid] d] eqn:E. apply logw_k, w_succeed_all_k.
    eapply spawn_k; [exact E|]. auto with kdb.
  - destruct (StoreB.step _ _) as [[s' r] ts]. destruct r; auto with kdb.
Qed.
#[local] Hint Resolve e_put_k : kdb.

Lemma e_get_k w e p t n w1 r : e_get w e p t n = (w1, r) -> KI w -> KI w1.
Proof.
  unfold e_get. intros E H. destruct (StoreB.step _ _) as [[s' r0] ts]. destruct r0 as [?| |?|e0]; try destruct e0; inversion E; subst; auto 10 with kdb.
Qed.

Lemma update_state_k w n s : KI w -> KI (update_state w n s).
Proof. unfold update_state. intros H. destruct (nlast _); auto with kdb. Qed.
#[local] Hint Resolve update_state_k : kdb.

Lemma draw_delay_k w n w1 d : draw_delay w n = (w1, d) -> KI w -> KI w1.
Proof. unfold draw_delay. intros [= <- _] H. auto with kdb. Qed.

Lemma draw_sel_k w n o w1 v : draw_sel w n o = (w1, v) -> KI w -> KI w1.
Proof.
  unfold draw_sel. intros E H. destruct (if o then noutsel _ else ninsel _); inversion E; subst; auto with kdb.
Qed.

Lemma cancel_others_k l : forall w keep (put : bool), KI w ->
  KI (fold_left (fun (w : world) (et : nat * nat) => let '(e, t) := et in
                             if Nat.eqb t keep then w else if put then e_cancel_put w e t else e_cancel_get w e t) l w).
Proof.
  induction l as [|[e t] l IH]; simpl; auto. intros w keep put H. apply IH.
  destruct (Nat.eqb t keep); auto. destruct put; auto with kdb.
Qed.
Lemma cancel_others_kk w es ts keep put : KI w -> KI (cancel_others w es ts keep put).
Proof. unfold cancel_others. apply cancel_others_k. Qed.
#[local] Hint Resolve cancel_others_kk : kdb.

Lemma reserve_all_k pid (put : bool) es : forall w l w1 l1,
  fold_left (fun (acc : world * list nat) (e : nat) => let '(w, l) := acc in
                          let '(w', t) := if put then e_reserve_put w e pid else e_reserve_get w e pid in (w', l ++ [t]))
            es (w, l) = (w1, l1) -> KI w -> KI w1.
Proof.
  induction es as [|e es IH]; simpl; intros w l w1 l1 E H.
  - inversion E; subst; auto.
  - destruct put.
    + destruct (e_reserve_put w e pid) as [w' t] eqn:E1. eapply IH; [exact E|]. eapply e_reserve_put_k; eauto.
    + destruct (e_reserve_get w e pid) as [w' t] eqn:E1. eapply IH; [exact E|]. eapply e_reserve_get_k; eauto.
Qed.
Lemma reserve_all_kk w pid es put w1 l1 : reserve_all w pid es put = (w1, l1) -> KI w -> KI w1.
Proof. unfold reserve_all. apply reserve_all_k. Qed.

Lemma set_creation_k w i n : KI w -> KI (set_creation w i n).
Proof. auto. Qed.
Lemma update_state_rep_k w n : KI w -> KI (update_state_rep w n).
Proof.
  unfold update_state_rep. intros H. destruct (nlast _); auto with kdb.
  destruct (nsrep _). destruct (count_threads _). destruct (_ >? _); auto with kdb.
Qed.
Lemma occupancy_k w n a : KI w -> KI (occupancy w n a).
Proof. auto. Qed.
Lemma set_thread_k w n p b : KI w -> KI (set_thread w n p b).
Proof. auto. Qed.
Lemma add_blocked_time_k w p n : KI w -> KI (add_blocked_time w p n).
Proof. auto. Qed.
#[local] Hint Resolve set_creation_k update_state_rep_k occupancy_k set_thread_k add_blocked_time_k : kdb.

(* tactic: split every let / match / if of a block, derive KI of each intermediate world from the
   equation that introduced it *)
Ltac kstep :=
  match goal with
  | E : w_timeout ?w _ = (?w1, _) |- _ => assert (KI w1) by (eapply w_timeout_k; [exact E|auto with kdb]); clear E
  | E : w_event ?w = (?w1, _) |- _ => assert (KI w1) by (eapply w_event_k; [exact E|auto with kdb]); clear E
  | E : w_any_of ?w _ = (?w1, _) |- _ => assert (KI w1) by (eapply w_any_of_k; [exact E|auto with kdb]); clear E
  | E : spawn ?w _ = (?w1, _, _) |- _ => assert (KI w1) by (eapply spawn_k; [exact E|auto with kdb]); clear E
  | E : store_op ?w _ _ = (?w1, _, _) |- _ => assert (KI w1) by (eapply store_op_k; [exact E|auto with kdb]); clear E
  | E : e_reserve_put ?w _ _ = (?w1, _) |- _ => assert (KI w1) by (eapply e_reserve_put_k; [exact E|auto with kdb]); clear E
  | E : e_reserve_get ?w _ _ = (?w1, _) |- _ => assert (KI w1) by (eapply e_reserve_get_k; [exact E|auto with kdb]); clear E
  | E : e_get ?w _ _ _ _ = (?w1, _) |- _ => assert (KI w1) by (eapply e_get_k; [exact E|auto with kdb]); clear E
  | E : draw_delay ?w _ = (?w1, _) |- _ => assert (KI w1) by (eapply draw_delay_k; [exact E|auto with kdb]); clear E
  | E : draw_sel ?w _ _ = (?w1, _) |- _ => assert (KI w1) by (eapply draw_sel_k; [exact E|auto with kdb]); clear E
  | E : reserve_all ?w _ _ _ = (?w1, _) |- _ => assert (KI w1) by (eapply reserve_all_kk; [exact E|auto with kdb]); clear E
  end.

Ltac ksplit :=
  repeat (match goal with
          | |- context [let '(_, _) := ?x in _] => destruct x as [? ?] eqn:?; try kstep
          | |- context [match ?x with _ => _ end] => destruct x eqn:?; try kstep
          end; simpl fst).

Ltac kauto := ksplit; simpl; auto 10 with kdb.

Ltac ksplit2 :=
  repeat (cbv zeta;
          match goal with
          | |- context [match ?x with _ => _ end] => destruct x eqn:?; repeat kstep; simpl fst
          end).
Ltac kgo := ksplit2; simpl; auto 12 with kdb.

Lemma source_loop_k w p n : KI w -> KI (fst (source_loop w p n)).
Proof. intros H. unfold source_loop. kgo. Qed.

Lemma spawn_push_k w n i e b : KI w -> KI (fst (spawn_push w n i e b)).
Proof. intros H. unfold spawn_push. kgo. Qed.

#[local] Hint Resolve source_loop_k spawn_push_k : kdb.

Lemma eqform {A} (f : world * A) w1 a : f = (w1, a) -> KI (fst f) -> KI w1.
Proof. intros ->. auto. Qed.

Ltac kstep2 :=
  match goal with
  | E : spawn_push ?w _ _ _ _ = (?w1, _) |- _ =>
      assert (KI w1) by (eapply eqform; [exact E|apply spawn_push_k; auto with kdb]); clear E
  end.

Ltac ksplit3 :=
  repeat (cbv zeta;
          match goal with
          | |- context [match ?x with _ => _ end] => destruct x eqn:?; repeat (kstep || kstep2); cbn [fst snd]
          end).
#[local] Hint Extern 6 (KI (set _ _ _)) => (unfold KI; cbn [wk set]; progress simpl) : kdb.
Ltac kgo3 := ksplit3; cbn [fst snd]; auto 14 with kdb.

Lemma source_block_k w p : KI w -> KI (fst (source_block w p)).
Proof. intros H. unfold source_block. kgo3. Qed.

Lemma push_block_k w p : KI w -> KI (fst (push_block w p)).
Proof. intros H. unfold push_block. kgo3. Qed.

Lemma buftimer_block_k w p : KI w -> KI (fst (buftimer_block w p)).
Proof. intros H. unfold buftimer_block. kgo3. Qed.

Lemma sink_loop_k w p n : KI w -> KI (fst (sink_loop w p n)).
Proof. intros H. unfold sink_loop. kgo3. Qed.
#[local] Hint Resolve sink_loop_k : kdb.

Lemma sink_block_k w p : KI w -> KI (fst (sink_block w p)).
Proof. intros H. unfold sink_block. kgo3. Qed.

Lemma res_trig_put_kinv k r k' r' : res_trig_put k r = Some (k', r') -> KT k -> KT k'.
Proof.
  unfold res_trig_put. destruct (r_putq r); [intros [= <- <-]; auto|].
  destruct (_ <? _)%nat; [|intros [= <- <-]; auto].
  destruct (succeed k n) eqn:E; [|discriminate]. intros [= <- <-] H. eapply succeed_kinv; eauto.
Qed.
Lemma res_trig_get_kinv k r k' r' : res_trig_get k r = Some (k', r') -> KT k -> KT k'.
Proof.
  unfold res_trig_get. destruct (r_getq r) as [|[g q] rest]; [intros [= <- <-]; auto|].
  destruct (succeed k g) eqn:E; [|discriminate]. intros [= <- <-] H. eapply succeed_kinv; eauto.
Qed.
Lemma res_request_kinv k rid r k' r' q : res_request k rid r = Some (k', r', q) -> KT k -> KT k'.
Proof.
  unfold res_request. simpl. destruct (res_trig_put _ _) as [[k3 r3]|] eqn:E; [|discriminate].
  intros [= <- <- <-] H. eapply res_trig_put_kinv; [exact E|]. apply add_cb_kinv. auto.
Qed.
Lemma res_release_kinv k rid r q k' r' g : res_release k rid r q = Some (k', r', g) -> KT k -> KT k'.
Proof.
  unfold res_release. simpl. destruct (res_trig_get _ _) as [[k3 r3]|] eqn:E; [|discriminate].
  intros [= <- <- <-] H. eapply res_trig_get_kinv; [exact E|]. apply add_cb_kinv. auto.
Qed.

Lemma machine_request_k w p n : KI w -> KI (fst (machine_request w p n)).
Proof.
  intros H. unfold machine_request. cbv zeta.
  assert (KI (update_state_rep w n)) as H1 by auto with kdb.
  destruct (res_request (wk (update_state_rep w n)) n (nres (get_node (update_state_rep w n) n))) as [[[k r] q]|] eqn:E; cbn [fst].
  - apply setpc_k, upd_proc_k, upd_node_k. unfold KI; cbn [wk set]. simpl. eapply res_request_kinv; eauto.
  - auto with kdb.
Qed.
#[local] Hint Resolve machine_request_k : kdb.

Lemma machine_start_worker_k w p n i : KI w -> KI (fst (machine_start_worker w p n i)).
Proof. intros H. unfold machine_start_worker. kgo3. Qed.
#[local] Hint Resolve machine_start_worker_k : kdb.

Lemma machine_block_k w p : KI w -> KI (fst (machine_block w p)).
Proof. intros H. unfold machine_block. kgo3. Qed.

Lemma worker_release_k w p n : KI w -> KI (fst (worker_release w p n)).
Proof.
  intros H. unfold worker_release. cbv zeta.
  destruct (res_release (wk w) n (nres (get_node w n)) (ptk (me w p))) as [[[k r] g]|] eqn:E; cbn [fst].
  - apply setpc_k, upd_node_k. unfold KI; cbn [wk set]. simpl. eapply res_release_kinv; eauto.
  - auto with kdb.
Qed.
#[local] Hint Resolve worker_release_k : kdb.

Lemma worker_block_k w p : KI w -> KI (fst (worker_block w p)).
Proof. intros H. unfold worker_block. kgo3. Qed.

Lemma fleet_loop_k w p e : KI w -> KI (fst (fleet_loop w p e)).
Proof. intros H. unfold fleet_loop. kgo3. Qed.
#[local] Hint Resolve fleet_loop_k : kdb.

Lemma fleetact_block_k w p : KI w -> KI (fst (fleetact_block w p)).
Proof.
  intros H. unfold fleetact_block. cbv zeta.
  destruct (ppc (me w p)); [apply fleet_loop_k; auto|].
  destruct (StoreB.transit _) eqn:ET; [apply fleet_loop_k; auto|].
  match goal with |- context [fleet_loop (if _ then _ else ?w1) _ _] => set (wb := w1) end.
  assert (KI wb) as H1.
  { subst wb. match goal with |- KI (match ?b with _ => _ end) => destruct b end; auto.
    destruct (spawn _ _) as [[w2 pid] d] eqn:E. eapply spawn_k; [exact E|]. auto with kdb. }
  clearbody wb.
  destruct (e_trig _).
  - destruct (w_event wb) as [w3 a] eqn:E2. apply fleet_loop_k, upd_edge_k. eapply w_event_k; eauto.
  - apply fleet_loop_k. exact H1.
Qed.

Lemma fleetmove_fold_k e l : forall w, KI w ->
  KI (fold_left (fun (w : world) (it : nat) =>
                    match wcrash w with
                    | Some _ => w
                    | None =>
                        let '(w1, r, ts) := store_op w e (StoreB.Ready it) in
                        let w2 := upd_edge w1 e (fun x => x <| eintransit ::= filter (fun t => negb (Nat.eqb t it)) |>) in
                        w_succeed_all (out_err w2 r 61) ts
                    end) l w).
Proof.
  induction l as [|x l IH]; simpl; auto. intros w H. apply IH.
  destruct (wcrash w); auto. destruct (store_op w e (StoreB.Ready x)) as [[w1 r] ts] eqn:E.
  apply w_succeed_all_k, out_err_k, upd_edge_k. eapply store_op_k; eauto.
Qed.

Lemma fleetmove_block_k w p : KI w -> KI (fst (fleetmove_block w p)).
Proof.
  intros H. unfold fleetmove_block. cbv zeta.
  destruct (ppc (me w p)) as [|[|?]]; cbn [fst].
  - destruct (plst (me w p)); cbn [fst]; auto. destruct (w_timeout _ _) as [w1 t] eqn:E. cbn [fst].
    apply setpc_k. eapply w_timeout_k; eauto.
  - destruct (w_timeout _ _) as [w1 t] eqn:E. cbn [fst]. apply setpc_k. eapply w_timeout_k; eauto.
  - apply fleetmove_fold_k. auto.
Qed.

Lemma check_state_k w n : KI w -> KI (check_state w n).
Proof. intros H. unfold check_state. destruct (count_threads _). kgo3. Qed.
#[local] Hint Resolve check_state_k : kdb.

Lemma sc_request_k w p n pc : KI w -> KI (fst (sc_request w p n pc)).
Proof.
  intros H. unfold sc_request.
  destruct (res_request (wk w) n (nres (get_node w n))) as [[[k r] q]|] eqn:E; cbn [fst].
  - apply setpc_k, upd_proc_k, upd_node_k. unfold KI; cbn [wk set]; simpl. eapply res_request_kinv; eauto.
  - auto with kdb.
Qed.
Lemma sc_release_k w p n : KI w -> KI (fst (sc_release w p n)).
Proof.
  intros H. unfold sc_release.
  destruct (res_release (wk w) n (nres (get_node w n)) (ptk (me w p))) as [[[k r] g]|] eqn:E; cbn [fst].
  - apply setpc_k, upd_node_k. unfold KI; cbn [wk set]; simpl. eapply res_release_kinv; eauto.
  - auto with kdb.
Qed.
#[local] Hint Resolve sc_request_k sc_release_k : kdb.

Lemma sc_dispatch_k w p n c ph : KI w -> KI (fst (sc_dispatch w p n c ph)).
Proof. intros H. unfold sc_dispatch. kgo3. Qed.
#[local] Hint Resolve sc_dispatch_k : kdb.

Lemma sc_next_k w p n : KI w -> KI (fst (sc_next w p n)).
Proof. intros H. unfold sc_next. kgo3. Qed.
#[local] Hint Resolve sc_next_k : kdb.

Lemma sc_worker_cont_k w p n : KI w -> KI (fst (sc_worker_cont w p n)).
Proof. intros H. unfold sc_worker_cont. kgo3. Qed.
#[local] Hint Resolve sc_worker_cont_k : kdb.

Lemma sc_run_k f : forall w p n r, KI (fst r) -> KI (fst (sc_run f w p n r)).
Proof.
  induction f as [|f IH]; simpl; intros w p n r H; auto with kdb.
  destruct r as [w1 y]. cbn [fst] in *. destruct (wcrash w1); auto.
  destruct (Nat.eqb _ 8); auto. apply IH. auto with kdb.
Qed.

Lemma splitworker_block_k w p : KI w -> KI (fst (splitworker_block w p)).
Proof.
  intros H. unfold splitworker_block. cbv zeta. destruct (ppc (me w p)) as [|[|?]].
  - kgo3.
  - match goal with |- context [if ?b then _ else _] => destruct b end; cbn [fst]; auto with kdb.
    apply sc_run_k. auto 12 with kdb.
  - apply sc_run_k. auto with kdb.
Qed.

Lemma combworker_block_k w p : KI w -> KI (fst (combworker_block w p)).
Proof.
  intros H. unfold combworker_block. cbv zeta. destruct (ppc (me w p)); apply sc_run_k; auto with kdb.
Qed.

Lemma splitter_head_k w p n : KI w -> KI (fst (splitter_head w p n)).
Proof. intros H. unfold splitter_head. kgo3. Qed.
#[local] Hint Resolve splitter_head_k : kdb.

Lemma splitter_start_k w p n pal : KI w -> KI (fst (splitter_start w p n pal)).
Proof. intros H. unfold splitter_start. kgo3. Qed.
#[local] Hint Resolve splitter_start_k : kdb.

Lemma splitter_block_k w p : KI w -> KI (fst (splitter_block w p)).
Proof. intros H. unfold splitter_block. kgo3. Qed.

Lemma combiner_head_k w p n : KI w -> KI (fst (combiner_head w p n)).
Proof. intros H. unfold combiner_head. kgo3. Qed.
#[local] Hint Resolve combiner_head_k : kdb.

Lemma combiner_rep_k e p k0 j : forall a, KI (fst (fst a)) -> KI (fst (fst (comb_rep e p k0 j a))).
Proof.
  induction j as [|j IH]; intros [[w0 ts] ix] H; simpl; auto.
  destruct (e_reserve_get w0 e p) as [w1 t] eqn:E. apply IH. cbn [fst]. eapply e_reserve_get_k; eauto.
Qed.

Lemma combiner_go_k rc p es : forall k acc r, KI (fst (fst acc)) -> comb_go rc p k es acc = Some r -> KI (fst (fst r)).
Proof.
  induction es as [|e es IH]; simpl; intros k acc r HA EQ.
  - inversion EQ; subst; auto.
  - destruct (nth_error rc k) as [q|]; [|discriminate]. eapply IH; [|exact EQ]. apply combiner_rep_k. exact HA.
Qed.

Lemma combiner_reserve_k w p n w1 a b : combiner_reserve w p n = Some (w1, a, b) -> KI w -> KI w1.
Proof.
  unfold combiner_reserve. intros E H.
  assert (KI (fst (fst (w1, a, b)))) as K by (eapply combiner_go_k; [|exact E]; cbn [fst]; exact H). exact K.
Qed.

Lemma combiner_loop_k w p n : KI w -> KI (fst (combiner_loop w p n)).
Proof. intros H. unfold combiner_loop. kgo3. Qed.
#[local] Hint Resolve combiner_loop_k : kdb.

Lemma combiner_block_k w p : KI w -> KI (fst (combiner_block w p)).
Proof.
  intros H. unfold combiner_block. cbv zeta.
  destruct (ppc (me w p)) as [|[|[|[|[|[|?]]]]]].
  - kgo3.
  - auto with kdb.
  - destruct (e_get _ _ _ _ _) as [w1 it] eqn:E. assert (KI w1) by (eapply e_get_k; eauto).
    destruct it; cbn [fst]; auto. destruct (negb _); cbn [fst]; auto with kdb.
    destruct (combiner_reserve w1 p (pown (me w p))) as [[[w2 a] b]|] eqn:E2; cbn [fst]; auto with kdb.
    assert (KI w2) by (eapply combiner_reserve_k; eauto).
    destruct (w_any_of w2 a) as [w3 c] eqn:E3. cbn [fst]. apply setpc_k, upd_proc_k. eapply w_any_of_k; eauto.
  - auto with kdb.
  - kgo3.
  - kgo3.
  - kgo3.
Qed.

Lemma block_k w p : KI w -> KI (fst (block w p)).
Proof.
  intros H. unfold block. destruct (pkd (me w p)); cbn [fst]; auto with kdb;
    first [apply source_block_k | apply machine_block_k | apply worker_block_k | apply sink_block_k | apply push_block_k
          | apply buftimer_block_k | apply fleetact_block_k | apply fleetmove_block_k | apply splitter_block_k
          | apply splitworker_block_k | apply combiner_block_k | apply combworker_block_k]; auto.
Qed.

Lemma resume_k f : forall w p, KI w -> KI (resume f w p).
Proof.
  induction f as [|f IH]; simpl; intros w p H; auto with kdb.
  destruct (wcrash w); auto.
  pose proof (block_k (w <| wactive := p |>) p) as B.
  destruct (block (w <| wactive := p |>) p) as [w1 y]. cbn [fst] in B.
  assert (KI w1) as H1 by (apply B; exact H).
  destruct (wcrash w1); auto. destruct y.
  - destruct (e_proc _); [apply IH; exact H1|]. unfold KI; cbn [wk set]; simpl. apply add_cb_kinv. exact H1.
  - apply upd_proc_k. unfold KI; cbn [wk set]; simpl. apply schedule_kt; [lia|]. apply mark_trig_kinv. exact H1.
Qed.

Lemma run_cb_k w c : KI w -> KI (run_cb w c).
Proof.
  intros H. unfold run_cb. destruct (wcrash w); auto. destruct c.
  - destruct (_ <? _)%nat; [apply resume_k; auto|apply crashw_k; auto].
  - unfold KI; cbn [wk set]. simpl. apply check_kinv. exact H.
  - destruct (res_trig_get _ _) as [[k0 r0]|] eqn:E; auto with kdb. apply upd_node_k.
    unfold KI; cbn [wk set]; simpl. eapply res_trig_get_kinv; eauto.
  - destruct (res_trig_put _ _) as [[k0 r0]|] eqn:E; auto with kdb. apply upd_node_k.
    unfold KI; cbn [wk set]; simpl. eapply res_trig_put_kinv; eauto.
  - exact H.
Qed.


Lemma run_cbs_k l : forall w, KI w -> KI (fold_left run_cb l w).
Proof. induction l as [|c l IH]; simpl; auto. intros w H. apply IH, run_cb_k, H. Qed.

End AtTime.

(* one kernel step preserves the kernel invariant and never moves the clock back *)
Theorem fstep_k w w' : KInv (wk w) -> fstep w = Some w' -> KInv (wk w') /\ wnow w <= wnow w'.
Proof.
  unfold fstep. intros H. destruct (wcrash w); [discriminate|].
  destruct (pop (wk w)) as [[[k e] cbs]|] eqn:E; [|discriminate]. intros [= <-].
  destruct (pop_kinv _ _ _ _ H E) as (K & M).
  assert (KI (now k) (w <| wk := k |>)) as H0 by (split; auto).
  destruct (run_cbs_k (now k) cbs _ H0) as (A & B). split; auto. unfold wnow. rewrite B. exact M.
Qed.

Lemma mk_step_k w c : KI 0 w -> KI 0 (mk_step w c).
Proof.
  intros H. unfold mk_step. destruct c as [b i]. destruct b.
  - cbv zeta. match goal with |- context [spawn ?a ?b] => destruct (spawn a b) as [[w' pid] d] eqn:E end.
    eapply (spawn_k 0); eauto.
  - destruct (ek (get_edge w i)); auto. destruct (w_event w) as [w1 act] eqn:E1. cbv zeta.
    match goal with |- context [spawn ?a ?b] => destruct (spawn a b) as [[w' pid] d] eqn:E end.
    eapply (spawn_k 0); [exact E|]. apply upd_edge_k. eapply (w_event_k 0); eauto.
Qed.

Lemma mk_world_k nodes edges order : KInv (wk (mk_world nodes edges order)).
Proof.
  unfold mk_world.
  assert (forall l w, KI 0 w -> KI 0 (fold_left mk_step l w)) as G.
  { induction l as [|c l IH]; simpl; auto. intros w H. apply IH, mk_step_k, H. }
  apply G. split; simpl; auto. split; [constructor|constructor].
Qed.

(* C19 (time part): along every run of every factory the clock never goes back *)
Fixpoint iter_fstep (n : nat) (w : world) : world :=
  match n with O => w | S m => match fstep w with Some w' => iter_fstep m w' | None => w end end.

Theorem time_monotone nodes edges order n :
  let w0 := mk_world nodes edges order in
  KInv (wk (iter_fstep n w0)) /\ forall m, (m <= n)%nat -> wnow (iter_fstep m w0) <= wnow (iter_fstep n w0).
Proof.
  intros w0. pose proof (mk_world_k nodes edges order) as H0. fold w0 in H0.
  assert (forall n w, KInv (wk w) -> KInv (wk (iter_fstep n w)) /\ wnow w <= wnow (iter_fstep n w)) as G.
  { induction n0 as [|n0 IH]; simpl; intros w H; [split; auto; lia|].
    destruct (fstep w) as [w'|] eqn:E; [|split; auto; lia].
    destruct (fstep_k _ _ H E) as (A & B). destruct (IH _ A) as (C & D). split; auto. lia. }
  split; [apply G; auto|].
  intros m Hm. replace n with (m + (n - m))%nat by lia.
  assert (forall a b w, iter_fstep (a + b) w = iter_fstep b (iter_fstep a w)) as S.
  { induction a as [|a IH]; simpl; auto. intros b w. destruct (fstep w) eqn:E; auto.
    destruct b; simpl; auto. rewrite E. reflexivity. }
  rewrite S. apply G. apply G. exact H0.
Qed.
