(* Whole-factory invariant for C18 (cycle times, time stamps) and C19 (observed time):
   in every reachable world of every configuration
     - a sink's total cycle time is the sum, over the receptions in the trace, of reception time minus the
       creation stamp the sink read from the item;
     - no creation stamp lies in the future, and every reception is at or after the creation it reads;
     - the time stamps of the trace are non-decreasing and never ahead of the clock.
   The predicate carries "the clock shows T": no operation of a block moves the clock (only the kernel's pop does),
   which is what lets the stamp [wnow w0] taken at the beginning of a block be recognised as T at its end.
   Lifted through all process blocks with the tactic of FactoryInv.v / FactoryCount.v. *)
From Coq Require Import List ZArith Lia Bool Arith Sorting.Sorted.
From RecordUpdate Require Import RecordUpdate.
From FV Require Import ListLemmas Kernel SrcFragments Lens World Factory.
From FV Require FactoryInv.
From FV Require StoreB.
Import ListNotations.
Open Scope Z_scope.

Definition ev_time (x : tev) : option Z :=
  match x with
  | LGen t _ _ | LPut t _ _ | LGet t _ _ _ | LDiscard t _ _ | LRecv t _ _ _ | LPack t _ _ _ => Some t
  | _ => None
  end.
Definition times (l : list tev) : list Z := flat_map (fun x => match ev_time x with Some t => [t] | None => [] end) l.
Definition recv_ok (x : tev) : Prop := match x with LRecv t _ _ c => c <= t | _ => True end.
Definition contrib (n : nat) (x : tev) : Z := match x with LRecv t m _ c => if Nat.eqb m n then t - c else 0 | _ => 0 end.
Definition cyc (n : nat) (l : list tev) : Z := fold_right (fun x a => contrib n x + a) 0 l.
Definition is_recv (x : tev) : bool := match x with LRecv _ _ _ _ => true | _ => false end.
Arguments times : simpl never.
Arguments cyc : simpl never.

Lemma times_snoc l x : times (l ++ [x]) = times l ++ match ev_time x with Some t => [t] | None => [] end.
Proof. unfold times. rewrite flat_map_app. simpl. rewrite app_nil_r. reflexivity. Qed.
Lemma cyc_snoc n l x : cyc n (l ++ [x]) = cyc n l + contrib n x.
Proof. unfold cyc. induction l as [|y l IH]; simpl; [lia|]. rewrite IH. lia. Qed.
Lemma ss_snoc l t : StronglySorted Z.le l -> Forall (fun x => x <= t) l -> StronglySorted Z.le (l ++ [t]).
Proof.
  induction 1 as [|y l S IH F]; simpl; intros B.
  - constructor; constructor.
  - inversion B; subst. constructor; auto. apply Forall_app. split; auto.
Qed.
Lemma upd_length {A} n (f : A -> A) l : length (upd n f l) = length l.
Proof. revert l. induction n as [|n IH]; intros [|x l]; simpl; auto. Qed.
Lemma nth_upd_same {A} n (f : A -> A) : forall l d, (n < length l)%nat -> nth n (upd n f l) d = f (nth n l d).
Proof. induction n as [|n IH]; intros [|x l] d H; simpl in *; try lia; auto. apply IH. lia. Qed.
Lemma nth_upd_other {A} n m (f : A -> A) : forall l d, n <> m -> nth m (upd n f l) d = nth m l d.
Proof. revert m. induction n as [|n IH]; intros [|m] [|x l] d H; simpl in *; try lia; auto; apply IH; lia. Qed.
Lemma Forall_upd {A} (P : A -> Prop) n f : (forall x, P x -> P (f x)) -> forall l, Forall P l -> Forall P (upd n f l).
Proof.
  intros K. induction n as [|n IH]; intros [|x l] H; simpl; auto; inversion H; subst; constructor; auto.
Qed.

(* clock-independent part, monotone in T *)
Definition cre_ok (T : Z) (it : iteminfo) : Prop := match i_creation it with Some c => c <= T | None => True end.
Definition YT (T : Z) (w : world) : Prop :=
  Forall (cre_ok T) (witems w) /\
  Forall (fun t => t <= T) (times (wlog w)) /\ StronglySorted Z.le (times (wlog w)) /\
  Forall recv_ok (wlog w) /\
  forall n, (n < length (wnodes w))%nat -> ncycle (get_node w n) = cyc n (wlog w).
Definition XT (T : Z) (w : world) : Prop := wnow w = T /\ YT T w.

Lemma YT_mono T T' w : T <= T' -> YT T w -> YT T' w.
Proof.
  intros L (A & B & C & D & E). repeat split; auto.
  - eapply Forall_impl; [|exact A]. intros it. unfold cre_ok. destruct (i_creation it); auto. lia.
  - eapply Forall_impl; [|exact B]. simpl. intros; lia.
Qed.

(* the kernel operations other than pop leave the clock alone *)
Lemma now_succeed k e k' : succeed k e = Some k' -> now k' = now k.
Proof. unfold succeed. destruct (e_trig _); [discriminate|]. intros [= <-]. reflexivity. Qed.
Lemma now_check k c : now (check k c) = now k.
Proof. unfold check. destruct (e_trig _); reflexivity. Qed.
Lemma now_any_of_fold c l : forall k0,
  now (fold_left (fun k1 e1 => if e_proc (get_ev k1 e1) then check k1 c else add_cb k1 e1 (CbCheck c)) l k0) = now k0.
Proof.
  induction l as [|x l IH]; simpl; intros k0; auto. rewrite IH. destruct (e_proc _); [apply now_check|reflexivity].
Qed.
Lemma now_any_of k es : now (fst (any_of k es)) = now k.
Proof.
  unfold any_of. simpl. destruct es as [|e es]; [reflexivity|]. cbn [fst]. rewrite now_any_of_fold.
  reflexivity.
Qed.
Lemma now_res_trig_put k r k' r' : res_trig_put k r = Some (k', r') -> now k' = now k.
Proof.
  unfold res_trig_put. destruct (r_putq r); [intros [= <- _]; auto|]. destruct (_ <? _)%nat; [|intros [= <- _]; auto].
  destruct (succeed k n) eqn:E; [|discriminate]. intros [= <- _]. eapply now_succeed; eauto.
Qed.
Lemma now_res_trig_get k r k' r' : res_trig_get k r = Some (k', r') -> now k' = now k.
Proof.
  unfold res_trig_get. destruct (r_getq r) as [|[g q] rest]; [intros [= <- _]; auto|].
  destruct (succeed k g) eqn:E; [|discriminate]. intros [= <- _]. eapply now_succeed; eauto.
Qed.
Lemma now_res_request k rid r k' r' q : res_request k rid r = Some (k', r', q) -> now k' = now k.
Proof.
  unfold res_request. simpl. destruct (res_trig_put _ _) as [[k3 r3]|] eqn:E; [|discriminate].
  intros [= <- _ _]. apply now_res_trig_put in E. exact E.
Qed.
Lemma now_res_release k rid r q k' r' g : res_release k rid r q = Some (k', r', g) -> now k' = now k.
Proof.
  unfold res_release. simpl. destruct (res_trig_get _ _) as [[k3 r3]|] eqn:E; [|discriminate].
  intros [= <- _ _]. apply now_res_trig_get in E. exact E.
Qed.

Section AtTime.
Variable T : Z.
Notation CN := (XT T).

Lemma pnow w : CN w -> wnow w = T.
Proof. intros (A & _). exact A. Qed.

(* a world that differs only in kernel events / queue, edges, processes *)
Lemma same_c w w' : wnow w' = wnow w -> witems w' = witems w -> wlog w' = wlog w -> wnodes w' = wnodes w -> CN w -> CN w'.
Proof. unfold XT, YT, get_node. intros -> -> -> ->. auto. Qed.
Lemma setk_c w k : now k = now (wk w) -> CN w -> CN (w <| wk := k |>).
Proof. intros E. apply same_c; auto. Qed.

Lemma upd_node_keep w n f : (forall x, ncycle (f x) = ncycle x) -> CN w -> CN (upd_node w n f).
Proof.
  intros K (N & A & B & C & D & E). split; [exact N|]. repeat split; auto.
  intros m L. unfold upd_node in *. cbn [wnodes wlog set] in *. simpl in *. rewrite upd_length in L.
  specialize (E m L). unfold get_node in *. cbn [wnodes set]. simpl. destruct (Nat.eq_dec n m) as [->|NE].
  - rewrite nth_upd_same by exact L. rewrite K. exact E.
  - rewrite nth_upd_other by exact NE. exact E.
Qed.
Lemma upd_item_c w i f : (forall y, cre_ok T y -> cre_ok T (f y)) -> CN w -> CN (upd_item w i f).
Proof.
  intros K (N & A & B & C & D & E). split; [exact N|]. repeat split; auto.
  unfold upd_item. cbn [witems set]. simpl. apply Forall_upd; auto.
Qed.
Lemma add_item_c w it : cre_ok T it -> CN w -> CN (w <| witems ::= fun l => l ++ [it] |>).
Proof.
  intros K (N & A & B & C & D & E). split; [exact N|]. repeat split; auto.
  cbn [witems set]. simpl. apply Forall_app. split; auto.
Qed.
Lemma wlog_logw w x : wlog (logw w x) = wlog w ++ [x].
Proof. reflexivity. Qed.
Lemma witems_logw w x : witems (logw w x) = witems w.
Proof. reflexivity. Qed.
Lemma wnodes_logw w x : wnodes (logw w x) = wnodes w.
Proof. reflexivity. Qed.
Lemma wnow_logw w x : wnow (logw w x) = wnow w.
Proof. reflexivity. Qed.
Lemma wlog_upd_node w n f : wlog (upd_node w n f) = wlog w.
Proof. reflexivity. Qed.
Lemma witems_upd_node w n f : witems (upd_node w n f) = witems w.
Proof. reflexivity. Qed.
Lemma wnodes_upd_node w n f : wnodes (upd_node w n f) = upd n f (wnodes w).
Proof. reflexivity. Qed.
Lemma wnow_upd_node w n f : wnow (upd_node w n f) = wnow w.
Proof. reflexivity. Qed.
(* a trace entry without a time stamp *)
Lemma logw_c w x : ev_time x = None -> CN w -> CN (logw w x).
Proof.
  intros Q (N & A & B & C & D & E). split; [exact N|]. unfold YT, get_node. rewrite wlog_logw, witems_logw, wnodes_logw.
  assert (contrib_0 : forall n, contrib n x = 0) by (intros n; destruct x; simpl in *; try reflexivity; discriminate).
  repeat split; auto.
  - rewrite times_snoc, Q, app_nil_r. exact B.
  - rewrite times_snoc, Q, app_nil_r. exact C.
  - apply Forall_app. split; auto. constructor; auto. destruct x; simpl in *; auto; discriminate.
  - intros n L. rewrite cyc_snoc, contrib_0. rewrite Z.add_0_r. apply E, L.
Qed.
(* a stamped entry other than a reception: the stamp is the clock *)
Lemma logw_t w x t : ev_time x = Some t -> is_recv x = false -> t = T -> CN w -> CN (logw w x).
Proof.
  intros Q R -> (N & A & B & C & D & E). split; [exact N|]. unfold YT, get_node. rewrite wlog_logw, witems_logw, wnodes_logw.
  assert (contrib_0 : forall n, contrib n x = 0) by (intros n; destruct x; simpl in *; try reflexivity; discriminate).
  repeat split; auto.
  - rewrite times_snoc, Q. apply Forall_app. split; auto. constructor; auto. lia.
  - rewrite times_snoc, Q. apply ss_snoc; auto.
  - apply Forall_app. split; auto. constructor; auto. destruct x; simpl in *; auto; discriminate.
  - intros n L. rewrite cyc_snoc, contrib_0. rewrite Z.add_0_r. apply E, L.
Qed.
(* the reception: counter, cycle total and trace move together *)
Lemma recv_pair w n t t' i c :
  t = T -> t' = T -> c <= T -> CN w ->
  CN (logw (upd_node w n (fun x => x <| nrecv ::= S |> <| ncycle ::= fun v => v + (t' - c) |>)) (LRecv t n i c)).
Proof.
  intros -> -> Hc (N & A & B & C & D & E). split; [exact N|].
  unfold YT, get_node. rewrite wlog_logw, witems_logw, wnodes_logw, wlog_upd_node, witems_upd_node, wnodes_upd_node.
  repeat split; auto.
  - rewrite times_snoc. simpl. apply Forall_app. split; auto. constructor; auto. lia.
  - rewrite times_snoc. simpl. apply ss_snoc; auto.
  - apply Forall_app. split; [exact D|]. constructor; [simpl; lia|constructor].
  - intros m L. rewrite upd_length in L. specialize (E m L). unfold get_node in *. rewrite cyc_snoc. simpl.
    destruct (Nat.eq_dec n m) as [->|NE].
    + rewrite nth_upd_same by exact L. rewrite Nat.eqb_refl. cbn. rewrite E. lia.
    + rewrite nth_upd_other by exact NE. destruct (Nat.eqb_spec n m); [congruence|]. lia.
Qed.
Lemma cre_le w i c : CN w -> i_creation (get_item w i) = Some c -> c <= T.
Proof.
  intros (_ & A & _) H. unfold get_item in H. destruct (Nat.lt_ge_cases i (length (witems w))) as [L|L].
  - rewrite Forall_forall in A. specialize (A _ (nth_In _ item0 L)). unfold cre_ok in A. rewrite H in A. exact A.
  - rewrite nth_overflow in H by exact L. discriminate.
Qed.

Create HintDb cdb.

Lemma crashw_c w c : CN w -> CN (crashw w c).
Proof. unfold crashw. destruct (wcrash w); auto. Qed.
Lemma upd_edge_c w e f : CN w -> CN (upd_edge w e f).
Proof. auto. Qed.
Lemma upd_proc_c w e f : CN w -> CN (upd_proc w e f).
Proof. auto. Qed.
Lemma setpc_c w p pc : CN w -> CN (setpc w p pc).
Proof. auto. Qed.
#[local] Hint Resolve crashw_c upd_edge_c upd_proc_c setpc_c : cdb.
Ltac cn_side :=
  let x := fresh in intros x;
  first [reflexivity
        | repeat (match goal with
                  | |- context [if ?b then _ else _] => destruct b
                  | |- context [match ?b with _ => _ end] => destruct b
                  end); reflexivity].
Ltac tnow := first [reflexivity | (rewrite ?wnow_upd_node, ?wnow_logw; apply pnow; auto 14 with cdb)].
#[local] Hint Extern 2 (CN (logw _ (LSel _ _ _))) => (apply logw_c; [reflexivity|]) : cdb.
#[local] Hint Extern 2 (CN (logw _ (LDraw _ _ _))) => (apply logw_c; [reflexivity|]) : cdb.
#[local] Hint Extern 2 (CN (logw _ (LGen _ _ _))) => (eapply logw_t; [reflexivity|reflexivity|tnow|]) : cdb.
#[local] Hint Extern 2 (CN (logw _ (LPut _ _ _))) => (eapply logw_t; [reflexivity|reflexivity|tnow|]) : cdb.
#[local] Hint Extern 2 (CN (logw _ (LGet _ _ _ _))) => (eapply logw_t; [reflexivity|reflexivity|tnow|]) : cdb.
#[local] Hint Extern 2 (CN (logw _ (LDiscard _ _ _))) => (eapply logw_t; [reflexivity|reflexivity|tnow|]) : cdb.
#[local] Hint Extern 2 (CN (logw _ (LPack _ _ _ _))) => (eapply logw_t; [reflexivity|reflexivity|tnow|]) : cdb.
#[local] Hint Extern 1 (CN (logw (upd_node _ _ _) (LRecv _ _ _ _))) =>
  (eapply recv_pair; [tnow|tnow|(eapply cre_le; [|eassumption]; auto 14 with cdb)|]) : cdb.
#[local] Hint Extern 3 (CN (upd_node _ _ _)) => (apply upd_node_keep; [cn_side|]) : cdb.
#[local] Hint Extern 3 (CN (upd_item _ _ (fun _ => _ <| i_contents ::= _ |>))) => (apply upd_item_c; [intros ? ?; assumption|]) : cdb.
#[local] Hint Extern 3 (CN (upd_item _ _ (fun _ => _ <| i_contents := _ |>))) => (apply upd_item_c; [intros ? ?; assumption|]) : cdb.

Lemma w_succeed_c w e s : CN w -> CN (w_succeed w e s).
Proof.
  unfold w_succeed. intros H. destruct (succeed (wk w) e) eqn:E; [|apply crashw_c; auto].
  apply setk_c; auto. eapply now_succeed; eauto.
Qed.
#[local] Hint Resolve w_succeed_c : cdb.

Lemma w_succeed_all_c es : forall w, CN w -> CN (w_succeed_all w es).
Proof. unfold w_succeed_all. induction es as [|e es IH]; simpl; auto. intros w H. apply IH. auto with cdb. Qed.
#[local] Hint Resolve w_succeed_all_c : cdb.

Lemma w_event_c w w1 e : w_event w = (w1, e) -> CN w -> CN w1.
Proof. unfold w_event. simpl. intros [= <- _] H. apply setk_c; auto. Qed.

Lemma w_timeout_c w d w1 e : w_timeout w d = (w1, e) -> CN w -> CN w1.
Proof.
  unfold w_timeout. destruct (d <? 0).
  - intros [= <- _] H. auto with cdb.
  - destruct (timeout (wk w) d) as [k e0] eqn:E. intros [= <- _] H. apply setk_c; auto.
    apply (f_equal fst) in E. simpl in E. subst k. reflexivity.
Qed.

Lemma w_any_of_c w es w1 c : w_any_of w es = (w1, c) -> CN w -> CN w1.
Proof.
  unfold w_any_of. destruct (any_of (wk w) es) as [k e0] eqn:E. intros [= <- _] H. apply setk_c; auto.
  apply (f_equal fst) in E. simpl in E. subst k. apply now_any_of.
Qed.

Lemma spawn_c w p w1 pid d : spawn w p = (w1, pid, d) -> CN w -> CN w1.
Proof.
  unfold spawn. intros E H.
  destruct (w_event w) as [wa done] eqn:E1. destruct (w_event wa) as [wb ini] eqn:E2.
  inversion E; subst. clear E.
  assert (CN wb) as Hb by (eapply w_event_c; [exact E2|]; eapply w_event_c; [exact E1|]; exact H).
  revert Hb. apply same_c; reflexivity.
Qed.

Lemma e_update_level_c w e : CN w -> CN (e_update_level w e).
Proof. auto. Qed.
#[local] Hint Resolve e_update_level_c : cdb.
Lemma store_op_c w e o w1 r ts : store_op w e o = (w1, r, ts) -> CN w -> CN w1.
Proof. unfold store_op. destruct (StoreB.step _ _) as [[s' r0] ts0]. intros [= <- _ _] H. auto. Qed.

Lemma out_err_c w r s : CN w -> CN (out_err w r s).
Proof. unfold out_err. intros H. destruct r; auto. destruct e; auto with cdb. Qed.
#[local] Hint Resolve out_err_c : cdb.

Lemma e_reserve_put_c w e p w1 t : e_reserve_put w e p = (w1, t) -> CN w -> CN w1.
Proof.
  unfold e_reserve_put. intros E H.
  destruct (w_event w) as [wa ev] eqn:E1. destruct (store_op wa e (StoreB.Sync ev)) as [[wb r1] t1] eqn:E2.
  destruct (store_op wb e (StoreB.RPut p 0)) as [[wc r2] t2] eqn:E3. inversion E; subst.
  apply w_succeed_all_c. eapply store_op_c; [exact E3|]. eapply store_op_c; [exact E2|]. eapply w_event_c; eauto.
Qed.

Lemma e_reserve_get_c w e p w1 t : e_reserve_get w e p = (w1, t) -> CN w -> CN w1.
Proof.
  unfold e_reserve_get. intros E H.
  destruct (w_event w) as [wa ev] eqn:E1. destruct (store_op wa e (StoreB.Sync ev)) as [[wb r1] t1] eqn:E2.
  destruct (store_op wb e (StoreB.RGet p 0)) as [[wc r2] t2] eqn:E3. inversion E; subst.
  apply w_succeed_all_c. eapply store_op_c; [exact E3|]. eapply store_op_c; [exact E2|]. eapply w_event_c; eauto.
Qed.

Lemma e_cancel_put_c w e t : CN w -> CN (e_cancel_put w e t).
Proof.
  unfold e_cancel_put. intros H. destruct (store_op w e (StoreB.CPut t)) as [[w1 r] ts] eqn:E.
  apply w_succeed_all_c, out_err_c. eapply store_op_c; eauto.
Qed.
Lemma e_cancel_get_c w e t : CN w -> CN (e_cancel_get w e t).
Proof.
  unfold e_cancel_get. intros H. destruct (store_op w e (StoreB.CGet t)) as [[w1 r] ts] eqn:E.
  apply w_succeed_all_c, out_err_c. eapply store_op_c; eauto.
Qed.
#[local] Hint Resolve e_cancel_put_c e_cancel_get_c : cdb.

Lemma fleet_after_put_c w e : CN w -> CN (fleet_after_put w e).
Proof.
  unfold fleet_after_put. intros H. destruct (_ =? _)%nat; auto.
  destruct (e_trig _); auto with cdb.
Qed.
#[local] Hint Resolve fleet_after_put_c : cdb.

Lemma e_put_c w e p t i : CN w -> CN (e_put w e p t i).
Proof.
  unfold e_put. intros H. destruct (ek (get_edge w e)).
  - destruct (_ <? 0); [auto with cdb|].
    destruct (StoreB.step _ _) as [[s' r] ts]. destruct r; auto with cdb.
    destruct (spawn _ _) as [[w2 pid] d] eqn:E. eapply logw_t; [reflexivity|reflexivity|apply pnow; exact H|]. apply w_succeed_all_c.
    eapply spawn_c; [exact E|]. auto with cdb.
  - destruct (StoreB.step _ _) as [[s' r] ts]. destruct r; auto with cdb.
Qed.
#[local] Hint Resolve e_put_c : cdb.

Lemma e_get_c w e p t n w1 r : e_get w e p t n = (w1, r) -> CN w -> CN w1.
Proof.
  unfold e_get. intros E H. destruct (StoreB.step _ _) as [[s' r0] ts]. destruct r0 as [?| |?|e0]; try destruct e0; inversion E; subst; auto 10 with cdb.
Qed.

Lemma update_state_c w n s : CN w -> CN (update_state w n s).
Proof. unfold update_state. intros H. destruct (nlast _); auto with cdb. Qed.
#[local] Hint Resolve update_state_c : cdb.

Lemma draw_delay_c w n w1 d : draw_delay w n = (w1, d) -> CN w -> CN w1.
Proof. unfold draw_delay. intros [= <- _] H. auto with cdb. Qed.

Lemma draw_sel_c w n o w1 v : draw_sel w n o = (w1, v) -> CN w -> CN w1.
Proof.
  unfold draw_sel. intros E H. destruct (if o then noutsel _ else ninsel _); inversion E; subst; auto with cdb.
Qed.

Lemma cancel_others_c l : forall w keep (put : bool), CN w ->
  CN (fold_left (fun (w : world) (et : nat * nat) => let '(e, t) := et in
                             if Nat.eqb t keep then w else if put then e_cancel_put w e t else e_cancel_get w e t) l w).
Proof.
  induction l as [|[e t] l IH]; simpl; auto. intros w keep put H. apply IH.
  destruct (Nat.eqb t keep); auto. destruct put; auto with cdb.
Qed.
Lemma cancel_others_cc w es ts keep put : CN w -> CN (cancel_others w es ts keep put).
Proof. unfold cancel_others. apply cancel_others_c. Qed.
#[local] Hint Resolve cancel_others_cc : cdb.

Lemma reserve_all_c pid (put : bool) es : forall w l w1 l1,
  fold_left (fun (acc : world * list nat) (e : nat) => let '(w, l) := acc in
                          let '(w', t) := if put then e_reserve_put w e pid else e_reserve_get w e pid in (w', l ++ [t]))
            es (w, l) = (w1, l1) -> CN w -> CN w1.
Proof.
  induction es as [|e es IH]; simpl; intros w l w1 l1 E H.
  - inversion E; subst; auto.
  - destruct put.
    + destruct (e_reserve_put w e pid) as [w' t] eqn:E1. eapply IH; [exact E|]. eapply e_reserve_put_c; eauto.
    + destruct (e_reserve_get w e pid) as [w' t] eqn:E1. eapply IH; [exact E|]. eapply e_reserve_get_c; eauto.
Qed.
Lemma reserve_all_cc w pid es put w1 l1 : reserve_all w pid es put = (w1, l1) -> CN w -> CN w1.
Proof. unfold reserve_all. apply reserve_all_c. Qed.

Lemma set_creation_c w i n : CN w -> CN (set_creation w i n).
Proof.
  intros H. unfold set_creation. apply upd_item_c; [|exact H].
  intros y _. unfold cre_ok. cbn. rewrite (pnow _ H). lia.
Qed.
Lemma update_state_rep_c w n : CN w -> CN (update_state_rep w n).
Proof.
  unfold update_state_rep. intros H. destruct (nlast _); auto with cdb.
  destruct (nsrep _). destruct (count_threads _). destruct (_ >? _); auto with cdb.
Qed.
Lemma occupancy_c w n a : CN w -> CN (occupancy w n a).
Proof. intros H. unfold occupancy. auto 8 with cdb. Qed.
Lemma set_thread_c w n p b : CN w -> CN (set_thread w n p b).
Proof. intros H. unfold set_thread. auto 8 with cdb. Qed.
Lemma add_blocked_time_c w p n : CN w -> CN (add_blocked_time w p n).
Proof. intros H. unfold add_blocked_time. auto 8 with cdb. Qed.
#[local] Hint Resolve set_creation_c update_state_rep_c occupancy_c set_thread_c add_blocked_time_c : cdb.

(* tactic: split every let / match / if of a block, derive CN of each intermediate world from the
   equation that introduced it *)
Ltac kstep :=
  match goal with
  | E : w_timeout ?w _ = (?w1, _) |- _ => assert (CN w1) by (eapply w_timeout_c; [exact E|auto 14 with cdb]); clear E
  | E : w_event ?w = (?w1, _) |- _ => assert (CN w1) by (eapply w_event_c; [exact E|auto 14 with cdb]); clear E
  | E : w_any_of ?w _ = (?w1, _) |- _ => assert (CN w1) by (eapply w_any_of_c; [exact E|auto 14 with cdb]); clear E
  | E : spawn ?w _ = (?w1, _, _) |- _ => assert (CN w1) by (eapply spawn_c; [exact E|auto 14 with cdb]); clear E
  | E : store_op ?w _ _ = (?w1, _, _) |- _ => assert (CN w1) by (eapply store_op_c; [exact E|auto 14 with cdb]); clear E
  | E : e_reserve_put ?w _ _ = (?w1, _) |- _ => assert (CN w1) by (eapply e_reserve_put_c; [exact E|auto 14 with cdb]); clear E
  | E : e_reserve_get ?w _ _ = (?w1, _) |- _ => assert (CN w1) by (eapply e_reserve_get_c; [exact E|auto 14 with cdb]); clear E
  | E : e_get ?w _ _ _ _ = (?w1, _) |- _ => assert (CN w1) by (eapply e_get_c; [exact E|auto 14 with cdb]); clear E
  | E : draw_delay ?w _ = (?w1, _) |- _ => assert (CN w1) by (eapply draw_delay_c; [exact E|auto 14 with cdb]); clear E
  | E : draw_sel ?w _ _ = (?w1, _) |- _ => assert (CN w1) by (eapply draw_sel_c; [exact E|auto 14 with cdb]); clear E
  | E : reserve_all ?w _ _ _ = (?w1, _) |- _ => assert (CN w1) by (eapply reserve_all_cc; [exact E|auto 14 with cdb]); clear E
  end.

Ltac ksplit :=
  repeat (match goal with
          | |- context [let '(_, _) := ?x in _] => destruct x as [? ?] eqn:?; try kstep
          | |- context [match ?x with _ => _ end] => destruct x eqn:?; try kstep
          end; simpl fst).

Ltac kauto := ksplit; simpl; auto 10 with cdb.

Ltac ksplit2 :=
  repeat (cbv zeta;
          match goal with
          | |- context [match ?x with _ => _ end] => destruct x eqn:?; repeat kstep; simpl fst
          end).
Ltac kgo := ksplit2; simpl; auto 12 with cdb.

Lemma source_loop_c w p n : CN w -> CN (fst (source_loop w p n)).
Proof. intros H. unfold source_loop. kgo. Qed.

Lemma spawn_push_c w n i e b : CN w -> CN (fst (spawn_push w n i e b)).
Proof. intros H. unfold spawn_push. kgo. Qed.

#[local] Hint Resolve source_loop_c spawn_push_c : cdb.

Lemma eqform {A} (f : world * A) w1 a : f = (w1, a) -> CN (fst f) -> CN w1.
Proof. intros ->. auto. Qed.

Ltac kstep2 :=
  match goal with
  | E : spawn_push ?w _ _ _ _ = (?w1, _) |- _ =>
      assert (CN w1) by (eapply eqform; [exact E|apply spawn_push_c; auto 14 with cdb]); clear E
  end.

Ltac ksplit3 :=
  repeat (cbv zeta;
          match goal with
          | |- context [match ?x with _ => _ end] => destruct x eqn:?; repeat (kstep || kstep2); cbn [fst snd]
          end).
#[local] Hint Extern 4 (CN (set witems _ _)) => (apply add_item_c; [exact I|]) : cdb.
Ltac kgo3 := ksplit3; cbn [fst snd]; auto 14 with cdb.

Lemma source_block_c w p : CN w -> CN (fst (source_block w p)).
Proof. intros H. unfold source_block. kgo3. Qed.

Lemma push_block_c w p : CN w -> CN (fst (push_block w p)).
Proof. intros H. unfold push_block. kgo3. Qed.

Lemma buftimer_block_c w p : CN w -> CN (fst (buftimer_block w p)).
Proof. intros H. unfold buftimer_block. kgo3. Qed.

Lemma sink_loop_c w p n : CN w -> CN (fst (sink_loop w p n)).
Proof. intros H. unfold sink_loop. kgo3. Qed.
#[local] Hint Resolve sink_loop_c : cdb.

Lemma sink_block_c w p : CN w -> CN (fst (sink_block w p)).
Proof. intros H. unfold sink_block. kgo3. Qed.


Lemma machine_request_c w p n : CN w -> CN (fst (machine_request w p n)).
Proof.
  intros H. unfold machine_request. cbv zeta.
  assert (CN (update_state_rep w n)) as H1 by auto with cdb.
  destruct (res_request (wk (update_state_rep w n)) n (nres (get_node (update_state_rep w n) n))) as [[[k r] q]|] eqn:E; cbn [fst].
  - apply setpc_c, upd_proc_c. apply upd_node_keep; [intros ?; reflexivity|]. apply setk_c; [|exact H1].
    eapply now_res_request; eauto.
  - auto with cdb.
Qed.
#[local] Hint Resolve machine_request_c : cdb.

Lemma machine_start_worker_c w p n i : CN w -> CN (fst (machine_start_worker w p n i)).
Proof. intros H. unfold machine_start_worker. kgo3. Qed.
#[local] Hint Resolve machine_start_worker_c : cdb.

Lemma machine_block_c w p : CN w -> CN (fst (machine_block w p)).
Proof. intros H. unfold machine_block. kgo3. Qed.

Lemma worker_release_c w p n : CN w -> CN (fst (worker_release w p n)).
Proof.
  intros H. unfold worker_release. cbv zeta.
  destruct (res_release (wk w) n (nres (get_node w n)) (ptk (me w p))) as [[[k r] g]|] eqn:E; cbn [fst].
  - apply setpc_c. apply upd_node_keep; [intros ?; reflexivity|]. apply setk_c; [|exact H]. eapply now_res_release; eauto.
  - auto with cdb.
Qed.
#[local] Hint Resolve worker_release_c : cdb.

Lemma worker_block_c w p : CN w -> CN (fst (worker_block w p)).
Proof. intros H. unfold worker_block. kgo3. Qed.

Lemma fleet_loop_c w p e : CN w -> CN (fst (fleet_loop w p e)).
Proof. intros H. unfold fleet_loop. kgo3. Qed.
#[local] Hint Resolve fleet_loop_c : cdb.

Lemma fleetact_block_c w p : CN w -> CN (fst (fleetact_block w p)).
Proof.
  intros H. unfold fleetact_block. cbv zeta.
  destruct (ppc (me w p)); [apply fleet_loop_c; auto|].
  destruct (StoreB.transit _) eqn:ET; [apply fleet_loop_c; auto|].
  match goal with |- context [fleet_loop (if _ then _ else ?w1) _ _] => set (wb := w1) end.
  assert (CN wb) as H1.
  { subst wb. match goal with |- CN (match ?b with _ => _ end) => destruct b end; auto.
    all: try (destruct (spawn _ _) as [[w2 pid] d] eqn:E; eapply spawn_c; [exact E|]; auto with cdb). }
  clearbody wb.
  destruct (e_trig _).
  - destruct (w_event wb) as [w3 a] eqn:E2. apply fleet_loop_c, upd_edge_c. eapply w_event_c; eauto.
  - apply fleet_loop_c. exact H1.
Qed.

Lemma fleetmove_fold_c e l : forall w, CN w ->
  CN (fold_left (fun (w : world) (it : nat) =>
                    match wcrash w with
                    | Some _ => w
                    | None =>
                        let '(w1, r, ts) := store_op w e (StoreB.Ready it) in
                        let w2 := upd_edge w1 e (fun x => x <| eintransit ::= filter (fun t => negb (Nat.eqb t it)) |>) in
                        w_succeed_all (out_err w2 r 61) ts
                    end) l w).
Proof.
  induction l as [|x l IH]; simpl; auto. intros w H. apply IH.
  destruct (wcrash w); auto. destruct (store_op w e (StoreB.Ready x)) as [[w1 r] ts] eqn:E.
  apply w_succeed_all_c, out_err_c, upd_edge_c. eapply store_op_c; eauto.
Qed.

Lemma fleetmove_block_c w p : CN w -> CN (fst (fleetmove_block w p)).
Proof.
  intros H. unfold fleetmove_block. cbv zeta.
  destruct (ppc (me w p)) as [|[|?]]; cbn [fst].
  - destruct (plst (me w p)); cbn [fst]; auto. destruct (w_timeout _ _) as [w1 t] eqn:E. cbn [fst].
    apply setpc_c. eapply w_timeout_c; eauto.
  - destruct (w_timeout _ _) as [w1 t] eqn:E. cbn [fst]. apply setpc_c. eapply w_timeout_c; eauto.
  - apply fleetmove_fold_c. auto.
Qed.

Lemma check_state_c w n : CN w -> CN (check_state w n).
Proof. intros H. unfold check_state. destruct (count_threads _). kgo3. Qed.
#[local] Hint Resolve check_state_c : cdb.

Lemma sc_request_c w p n pc : CN w -> CN (fst (sc_request w p n pc)).
Proof.
  intros H. unfold sc_request.
  destruct (res_request (wk w) n (nres (get_node w n))) as [[[k r] q]|] eqn:E; cbn [fst].
  - apply setpc_c, upd_proc_c. apply upd_node_keep; [intros ?; reflexivity|]. apply setk_c; [|exact H]. eapply now_res_request; eauto.
  - auto with cdb.
Qed.
Lemma sc_release_c w p n : CN w -> CN (fst (sc_release w p n)).
Proof.
  intros H. unfold sc_release.
  destruct (res_release (wk w) n (nres (get_node w n)) (ptk (me w p))) as [[[k r] g]|] eqn:E; cbn [fst].
  - apply setpc_c. apply upd_node_keep; [intros ?; reflexivity|]. apply setk_c; [|exact H]. eapply now_res_release; eauto.
  - auto with cdb.
Qed.
#[local] Hint Resolve sc_request_c sc_release_c : cdb.

Lemma sc_dispatch_c w p n c ph : CN w -> CN (fst (sc_dispatch w p n c ph)).
Proof. intros H. unfold sc_dispatch. kgo3. Qed.
#[local] Hint Resolve sc_dispatch_c : cdb.

Lemma sc_next_c w p n : CN w -> CN (fst (sc_next w p n)).
Proof. intros H. unfold sc_next. kgo3. Qed.
#[local] Hint Resolve sc_next_c : cdb.

Lemma sc_worker_cont_c w p n : CN w -> CN (fst (sc_worker_cont w p n)).
Proof. intros H. unfold sc_worker_cont. kgo3. Qed.
#[local] Hint Resolve sc_worker_cont_c : cdb.

Lemma sc_run_c f : forall w p n r, CN (fst r) -> CN (fst (sc_run f w p n r)).
Proof.
  induction f as [|f IH]; simpl; intros w p n r H; auto with cdb.
  destruct r as [w1 y]. cbn [fst] in *. destruct (wcrash w1); auto.
  destruct (Nat.eqb _ 8); auto. apply IH. auto with cdb.
Qed.

Lemma splitworker_block_c w p : CN w -> CN (fst (splitworker_block w p)).
Proof.
  intros H. unfold splitworker_block. cbv zeta. destruct (ppc (me w p)) as [|[|?]].
  - kgo3.
  - match goal with |- context [if ?b then _ else _] => destruct b end; cbn [fst]; auto with cdb.
    apply sc_run_c. auto 12 with cdb.
  - apply sc_run_c. auto with cdb.
Qed.

Lemma combworker_block_c w p : CN w -> CN (fst (combworker_block w p)).
Proof.
  intros H. unfold combworker_block. cbv zeta. destruct (ppc (me w p)); apply sc_run_c; auto with cdb.
Qed.

Lemma splitter_head_c w p n : CN w -> CN (fst (splitter_head w p n)).
Proof. intros H. unfold splitter_head. kgo3. Qed.
#[local] Hint Resolve splitter_head_c : cdb.

Lemma splitter_start_c w p n pal : CN w -> CN (fst (splitter_start w p n pal)).
Proof. intros H. unfold splitter_start. kgo3. Qed.
#[local] Hint Resolve splitter_start_c : cdb.

Lemma splitter_block_c w p : CN w -> CN (fst (splitter_block w p)).
Proof. intros H. unfold splitter_block. kgo3. Qed.

Lemma combiner_head_c w p n : CN w -> CN (fst (combiner_head w p n)).
Proof. intros H. unfold combiner_head. kgo3. Qed.
#[local] Hint Resolve combiner_head_c : cdb.

Lemma combiner_rep_c e p k0 j : forall a, CN (fst (fst a)) -> CN (fst (fst (comb_rep e p k0 j a))).
Proof.
  induction j as [|j IH]; intros [[w0 ts] ix] H; simpl; auto.
  destruct (e_reserve_get w0 e p) as [w1 t] eqn:E. apply IH. cbn [fst]. eapply e_reserve_get_c; eauto.
Qed.

Lemma combiner_go_c rc p es : forall k acc r, CN (fst (fst acc)) -> comb_go rc p k es acc = Some r -> CN (fst (fst r)).
Proof.
  induction es as [|e es IH]; simpl; intros k acc r HA EQ.
  - inversion EQ; subst; auto.
  - destruct (nth_error rc k) as [q|]; [|discriminate]. eapply IH; [|exact EQ]. apply combiner_rep_c. exact HA.
Qed.

Lemma combiner_reserve_c w p n w1 a b : combiner_reserve w p n = Some (w1, a, b) -> CN w -> CN w1.
Proof.
  unfold combiner_reserve. intros E H.
  assert (CN (fst (fst (w1, a, b)))) as K by (eapply combiner_go_c; [|exact E]; cbn [fst]; exact H). exact K.
Qed.

Lemma combiner_loop_c w p n : CN w -> CN (fst (combiner_loop w p n)).
Proof. intros H. unfold combiner_loop. kgo3. Qed.
#[local] Hint Resolve combiner_loop_c : cdb.

Lemma combiner_block_c w p : CN w -> CN (fst (combiner_block w p)).
Proof.
  intros H. unfold combiner_block. cbv zeta.
  destruct (ppc (me w p)) as [|[|[|[|[|[|?]]]]]].
  - kgo3.
  - auto with cdb.
  - destruct (e_get _ _ _ _ _) as [w1 it] eqn:E. assert (CN w1) by (eapply e_get_c; eauto).
    destruct it; cbn [fst]; auto. destruct (negb _); cbn [fst]; auto with cdb.
    destruct (combiner_reserve w1 p (pown (me w p))) as [[[w2 a] b]|] eqn:E2; cbn [fst]; auto with cdb.
    assert (CN w2) by (eapply combiner_reserve_c; eauto).
    destruct (w_any_of w2 a) as [w3 c] eqn:E3. cbn [fst]. apply setpc_c, upd_proc_c. eapply w_any_of_c; eauto.
  - auto with cdb.
  - kgo3.
  - kgo3.
  - kgo3.
Qed.

Lemma block_c w p : CN w -> CN (fst (block w p)).
Proof.
  intros H. unfold block. destruct (pkd (me w p)); cbn [fst]; auto with cdb;
    first [apply source_block_c | apply machine_block_c | apply worker_block_c | apply sink_block_c | apply push_block_c
          | apply buftimer_block_c | apply fleetact_block_c | apply fleetmove_block_c | apply splitter_block_c
          | apply splitworker_block_c | apply combiner_block_c | apply combworker_block_c]; auto.
Qed.

Lemma resume_c f : forall w p, CN w -> CN (resume f w p).
Proof.
  induction f as [|f IH]; simpl; intros w p H; auto with cdb.
  destruct (wcrash w); auto.
  pose proof (block_c (w <| wactive := p |>) p) as B.
  destruct (block (w <| wactive := p |>) p) as [w1 y]. cbn [fst] in B.
  assert (CN w1) as H1 by (apply B; exact H).
  destruct (wcrash w1); auto. destruct y.
  - destruct (e_proc _); [apply IH; exact H1|]. apply setk_c; [reflexivity|exact H1].
  - apply upd_proc_c. apply setk_c; [reflexivity|exact H1].
Qed.

Lemma run_cb_c w c : CN w -> CN (run_cb w c).
Proof.
  intros H. unfold run_cb. destruct (wcrash w); auto. destruct c.
  - destruct (_ <? _)%nat; [apply resume_c; auto|apply crashw_c; auto].
  - apply setk_c; [apply now_check|exact H].
  - destruct (res_trig_get _ _) as [[k0 r0]|] eqn:E; auto with cdb;
      (apply upd_node_keep; [intros ?; reflexivity|]; apply setk_c; [|exact H]; eapply now_res_trig_get; eauto).
  - destruct (res_trig_put _ _) as [[k0 r0]|] eqn:E; auto with cdb;
      (apply upd_node_keep; [intros ?; reflexivity|]; apply setk_c; [|exact H]; eapply now_res_trig_put; eauto).
  - exact H.
Qed.


Lemma run_cbs_c l : forall w, CN w -> CN (fold_left run_cb l w).
Proof. induction l as [|c l IH]; simpl; auto. intros w H. apply IH, run_cb_c, H. Qed.



End AtTime.

(* one kernel step: the clock moves forward to the popped event's time, and the predicate moves with it *)
Theorem fstep_x w w' : KInv (wk w) -> XT (wnow w) w -> fstep w = Some w' -> XT (wnow w') w'.
Proof.
  unfold fstep. intros KI H. destruct (wcrash w); [discriminate|].
  destruct (pop (wk w)) as [[[k e] cbs]|] eqn:E; [|discriminate]. intros [= <-].
  destruct (pop_kinv _ _ _ _ KI E) as (_ & M).
  assert (XT (now k) (w <| wk := k |>)) as H0.
  { split; [reflexivity|]. apply (YT_mono (wnow w)); [exact M|]. destruct H as (_ & Y). exact Y. }
  pose proof (run_cbs_c (now k) cbs _ H0) as R. rewrite (pnow _ _ R). exact R.
Qed.

Lemma mk_step_c w c : XT 0 w -> XT 0 (mk_step w c).
Proof.
  intros H. unfold mk_step. destruct c as [b i]. destruct b.
  - cbv zeta. match goal with |- context [spawn ?a ?b] => destruct (spawn a b) as [[w' pid] d] eqn:E end.
    eapply spawn_c; eauto.
  - destruct (ek (get_edge w i)); auto;
      destruct (w_event w) as [w1 act] eqn:E1; cbv zeta;
      match goal with |- context [spawn ?a ?b] => destruct (spawn a b) as [[w' pid] d] eqn:E end;
      (eapply spawn_c; [exact E|]); assert (XT 0 w1) as H1 by (eapply w_event_c; eauto); apply upd_edge_c; exact H1.
Qed.

Lemma mk_world_c nodes edges order :
  (forall nd, In nd nodes -> ncycle nd = 0) -> XT 0 (mk_world nodes edges order).
Proof.
  unfold mk_world. intros H0.
  assert (forall l w, XT 0 w -> XT 0 (fold_left mk_step l w)) as G.
  { induction l as [|c l IH]; simpl; auto. intros w H. apply IH, mk_step_c, H. }
  apply G. split; [reflexivity|]. unfold YT. simpl. repeat split; try constructor.
  intros n L. apply H0. unfold get_node. simpl. apply nth_In. exact L.
Qed.

(* for every factory configuration whose sinks start with a zero cycle total, and every number of kernel steps *)
Theorem stamps_everywhere nodes edges order n :
  (forall nd, In nd nodes -> ncycle nd = 0) ->
  let w := FactoryInv.iter_fstep n (mk_world nodes edges order) in
  XT (wnow w) w.
Proof.
  intros H0.
  assert (forall m w, KInv (wk w) -> XT (wnow w) w -> XT (wnow (FactoryInv.iter_fstep m w)) (FactoryInv.iter_fstep m w)) as G.
  { induction m as [|m IH]; simpl; intros w K H; auto. destruct (fstep w) as [w'|] eqn:E; auto.
    apply IH; [exact (proj1 (FactoryInv.fstep_k _ _ K E))|eapply fstep_x; eauto]. }
  intros w. apply G; [apply FactoryInv.mk_world_k|].
  pose proof (mk_world_c nodes edges order H0) as M. rewrite (pnow _ _ M). exact M.
Qed.

Theorem cycle_time_is_sum nodes edges order n :
  (forall nd, In nd nodes -> ncycle nd = 0) ->
  let w := FactoryInv.iter_fstep n (mk_world nodes edges order) in
  forall i, (i < length (wnodes w))%nat -> ncycle (get_node w i) = cyc i (wlog w).
Proof. intros H0 w. destruct (stamps_everywhere nodes edges order n H0) as (_ & _ & _ & _ & _ & E). exact E. Qed.

Theorem reception_not_before_creation nodes edges order n :
  (forall nd, In nd nodes -> ncycle nd = 0) ->
  let w := FactoryInv.iter_fstep n (mk_world nodes edges order) in
  Forall recv_ok (wlog w) /\ Forall (cre_ok (wnow w)) (witems w).
Proof. intros H0 w. destruct (stamps_everywhere nodes edges order n H0) as (_ & A & _ & _ & D & _). auto. Qed.

Theorem trace_times_nondecreasing nodes edges order n :
  (forall nd, In nd nodes -> ncycle nd = 0) ->
  let w := FactoryInv.iter_fstep n (mk_world nodes edges order) in
  StronglySorted Z.le (times (wlog w)) /\ Forall (fun t => t <= wnow w) (times (wlog w)).
Proof. intros H0 w. destruct (stamps_everywhere nodes edges order n H0) as (_ & _ & B & C & _). auto. Qed.
