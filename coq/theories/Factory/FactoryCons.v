(* Whole-factory invariant for C03 (conservation inside edges): in every reachable, un-crashed world of
   every configuration, the items inside an edge are exactly the items that the trace says were put on
   it and not yet taken from it (as multisets).  No item appears in or vanishes from an edge.
   Lifted through all process blocks with the tactic of FactoryInv.v. *)
From Coq Require Import List ZArith Lia Bool Arith Permutation.
From RecordUpdate Require Import RecordUpdate.
From FV Require Import ListLemmas ListLemmas2 Kernel SrcFragments Lens World Factory.
From FV Require FactoryInv TBuffer.
From FV Require StoreB StoreBInv.
Import ListNotations.
Open Scope Z_scope.

Definition cont (s : StoreB.store) : list nat := StoreB.transit s ++ StoreB.ready s.

(* what the trace says is inside edge e: every put adds the item, every get removes it *)
Definition tr_step (e : nat) (acc : list nat) (x : tev) : list nat :=
  match x with
  | LPut _ e' i => if Nat.eqb e' e then acc ++ [i] else acc
  | LGet _ e' i _ => if Nat.eqb e' e then remove_first (Nat.eqb i) acc else acc
  | _ => acc
  end.
Definition inside (e : nat) (log : list tev) : list nat := fold_left (tr_step e) log [].

Definition moves (x : tev) : bool := match x with LPut _ _ _ | LGet _ _ _ _ => true | _ => false end.

Lemma inside_snoc e log x : inside e (log ++ [x]) = tr_step e (inside e log) x.
Proof. unfold inside. rewrite fold_left_app. reflexivity. Qed.
Lemma inside_quiet e log x : moves x = false -> inside e (log ++ [x]) = inside e log.
Proof. intros H. rewrite inside_snoc. destruct x; try discriminate; reflexivity. Qed.

Lemma perm_remove_first (i : nat) l : In i l -> Permutation l (i :: remove_first (Nat.eqb i) l).
Proof.
  induction l as [|x l IH]; [intros []|]. simpl. destruct (Nat.eqb_spec i x) as [->|NE].
  - intros _. reflexivity.
  - intros [E|H]; [congruence|]. eapply perm_trans; [|apply perm_swap]. constructor. apply IH, H.
Qed.

(* ------------------------------------------------------------------ contents of a store under its operations *)
Definition neutral (o : StoreB.op) : bool :=
  match o with StoreB.Put _ _ _ | StoreB.Get _ _ | StoreB.Ready _ => false | _ => true end.

Lemma tp_cont s : cont (fst (StoreB.trig_put s)) = cont s.
Proof. destruct (StoreBInv.trig_put_fields s) as (_ & A & B & _). unfold cont. rewrite A, B. reflexivity. Qed.
Lemma tg_cont s s' ts : StoreB.trig_get s = Some (s', ts) -> cont s' = cont s.
Proof. intros E. destruct (StoreBInv.trig_get_fields _ _ _ E) as (_ & A & B & _). unfold cont. rewrite A, B. reflexivity. Qed.
Lemma after_get_cont s0 r x s' r' ts : (forall s2 ts2, x = Some (s2, ts2) -> cont s2 = cont s0) ->
  StoreB.after_get s0 r x = (s', r', ts) -> cont s' = cont s0.
Proof. unfold StoreB.after_get. intros K. destruct x as [[s2 ts2]|]; intros [= <- _ _]; auto. eapply K; eauto. Qed.

Lemma neutral_cont s o s' r ts : neutral o = true -> StoreB.step s o = (s', r, ts) -> cont s' = cont s.
Proof.
  intros N. destruct o; try discriminate; simpl.
  - destruct (StoreB.trig_put _) as [s2 ts2] eqn:E. intros [= <- _ _].
    apply (f_equal fst) in E. simpl in E. subst s2. rewrite tp_cont. reflexivity.
  - apply after_get_cont. intros s2 ts2 E. apply tg_cont in E. rewrite E. reflexivity.
  - destruct (existsb _ (StoreB.putq s)).
    + destruct (StoreB.trig_put _) as [s2 ts2] eqn:E. intros [= <- _ _].
      apply (f_equal fst) in E. simpl in E. subst s2. rewrite tp_cont. reflexivity.
    + destruct (existsb _ (StoreB.putres s)).
      * destruct (StoreB.trig_put _) as [s2 ts2] eqn:E. intros [= <- _ _].
        apply (f_equal fst) in E. simpl in E. subst s2. rewrite tp_cont. reflexivity.
      * intros [= <- _ _]. reflexivity.
  - destruct (existsb _ (StoreB.getq s)).
    + apply after_get_cont. intros s2 ts2 E. apply tg_cont in E. rewrite E. reflexivity.
    + destruct (index_where _ _); [|intros [= <- _ _]; reflexivity].
      destruct (nth_error _ _) as [[? it]|]; [|intros [= <- _ _]; reflexivity].
      destruct (existsb _ _); [|intros [= <- _ _]; reflexivity].
      apply after_get_cont. intros s2 ts2 E. apply tg_cont in E. rewrite E. reflexivity.
  - intros [= <- _ _]. reflexivity.
  - destruct (StoreB.trig_put s) as [s2 ts2] eqn:E. intros [= <- _ _].
    apply (f_equal fst) in E. simpl in E. subst s2. rewrite tp_cont. reflexivity.
  - destruct (_ <=? _)%nat; intros [= <- _ _]; reflexivity.
Qed.

Lemma put_cont s p t i s' r ts : StoreB.step s (StoreB.Put p t i) = (s', r, ts) ->
  (r = StoreB.OOk -> Permutation (cont s') (cont s ++ [i])) /\ (r <> StoreB.OOk -> cont s' = cont s).
Proof.
  intros E. destruct (TBuffer.put_shape _ _ _ _ _ _ _ E) as (A & B & C). unfold cont. rewrite A. split; intros H.
  - rewrite (B H). rewrite <- !app_assoc. apply Permutation_app_head. apply Permutation_app_comm.
  - rewrite (C H). reflexivity.
Qed.
Lemma put_res s p t i s' r ts : StoreB.step s (StoreB.Put p t i) = (s', r, ts) -> r = StoreB.OOk \/ exists e, r = StoreB.OErr e.
Proof.
  simpl. unfold StoreB.after_get. destruct (existsb _ _); [|intros [= _ <- _]; right; eauto].
  destruct (_ <? _)%nat; [|intros [= _ <- _]; right; eauto].
  destruct (StoreB.s_kind s).
  all: try (destruct (StoreB.trig_get _) as [[s2 ts2]|]; intros [= _ <- _]; [left; auto|right; eauto]).
  destruct (StoreB.trig_get _) as [[s3 ts1]|]; [|intros [= _ <- _]; right; eauto].
  destruct (StoreB.trig_get s3) as [[s4 ts2]|]; intros [= _ <- _]; [left; auto|right; eauto].
Qed.

Lemma get_cont s p t s' r ts : StoreB.step s (StoreB.Get p t) = (s', r, ts) ->
  match r with StoreB.OItem it => Permutation (cont s) (it :: cont s') | _ => s' = s end.
Proof.
  simpl. destruct (existsb _ (StoreB.getres s)); [|intros [= <- <- _]; reflexivity].
  destruct (index_where _ _); [|intros [= <- <- _]; reflexivity].
  destruct (nth_error _ _) as [[? it]|]; [|intros [= <- <- _]; reflexivity].
  destruct (existsb (Nat.eqb it) (StoreB.ready s)) eqn:EX; [|intros [= <- <- _]; reflexivity].
  destruct (StoreB.trig_put _) as [s2 ts2] eqn:E. intros [= <- <- _].
  apply (f_equal fst) in E. simpl in E. subst s2. rewrite tp_cont. unfold cont. simpl.
  apply existsb_exists in EX. destruct EX as (y & Hy & Ey). apply Nat.eqb_eq in Ey. subst y.
  rewrite (perm_remove_first it (StoreB.ready s) Hy) at 1. apply Permutation_sym, Permutation_middle.
Qed.

Lemma ready_cont s i s' r ts : StoreB.step s (StoreB.Ready i) = (s', r, ts) ->
  match r with StoreB.OOk => Permutation (cont s') (cont s) | StoreB.OErr _ => True | _ => False end.
Proof.
  simpl. destruct (existsb (Nat.eqb i) (StoreB.transit s)) eqn:EX; [|intros [= _ <- _]; exact I].
  destruct (StoreB.ready_guard _ _); [|intros [= _ <- _]; exact I].
  destruct (StoreB.trig_get _) as [[s2 ts2]|] eqn:E; [|intros [= _ <- _]; exact I].
  destruct (StoreB.trig_put s2) as [s3 ts3] eqn:E3. intros [= <- <- _].
  apply (f_equal fst) in E3. simpl in E3. subst s3. rewrite tp_cont. rewrite (tg_cont _ _ _ E).
  unfold cont. simpl. apply existsb_exists in EX. destruct EX as (y & Hy & Ey). apply Nat.eqb_eq in Ey. subst y.
  rewrite (perm_remove_first i (StoreB.transit s) Hy) at 2. simpl.
  rewrite app_assoc. rewrite <- Permutation_middle. rewrite app_nil_r. constructor. reflexivity.
Qed.

(* ------------------------------------------------------------------ the invariant, with a pending suffix of the trace *)
Definition PCx (extra : list tev) (w : world) : Prop :=
  wcrash w = None -> forall e, (e < length (wedges w))%nat ->
    Permutation (inside e (wlog w ++ extra)) (cont (est (get_edge w e))).
Definition PC : world -> Prop := PCx [].

Lemma upd_length {A} n (f : A -> A) l : length (upd n f l) = length l.
Proof. revert l. induction n as [|n IH]; intros [|x l]; simpl; auto. Qed.
Lemma nth_upd_same {A} n (f : A -> A) : forall l d, (n < length l)%nat -> nth n (upd n f l) d = f (nth n l d).
Proof. induction n as [|n IH]; intros [|x l] d H; simpl in *; try lia; auto. apply IH. lia. Qed.
Lemma nth_upd_other {A} n m (f : A -> A) : forall l d, n <> m -> nth m (upd n f l) d = nth m l d.
Proof. revert m. induction n as [|n IH]; intros [|m] [|x l] d H; simpl in *; try lia; auto; apply IH; lia. Qed.

Lemma est_get_upd w e f e' : (forall x, est (f x) = est x) -> (e' < length (wedges w))%nat ->
  est (get_edge (upd_edge w e f) e') = est (get_edge w e').
Proof.
  intros K L. unfold get_edge, upd_edge. cbn [wedges set]. simpl. destruct (Nat.eq_dec e e') as [->|NE].
  - rewrite nth_upd_same by exact L. apply K.
  - rewrite nth_upd_other by exact NE. reflexivity.
Qed.

Lemma inside_mid_quiet e l1 x l2 : moves x = false -> inside e ((l1 ++ [x]) ++ l2) = inside e (l1 ++ l2).
Proof.
  intros H. unfold inside. rewrite !fold_left_app. f_equal. simpl. destruct x; try discriminate; reflexivity.
Qed.

Section Frame.
Variable extra : list tev.

Lemma crashw_x w c : PCx extra (crashw w c).
Proof. unfold PCx, crashw. destruct (wcrash w) eqn:E; [rewrite E; discriminate|]. cbn. discriminate. Qed.

Lemma upd_edge_keep_x w e f : (forall x, est (f x) = est x) -> PCx extra w -> PCx extra (upd_edge w e f).
Proof.
  intros K H C e' L. assert (e' < length (wedges w))%nat as L' by (unfold upd_edge in L; cbn [wedges set] in L; simpl in L; rewrite upd_length in L; exact L).
  rewrite (est_get_upd w e f e' K L'). apply (H C e' L').
Qed.

Lemma set_est_x w e s' : PCx extra w -> (wcrash w = None -> Permutation (cont s') (cont (est (get_edge w e)))) ->
  PCx extra (upd_edge w e (fun x => x <| est := s' |>)).
Proof.
  intros H K C e' L. assert (e' < length (wedges w))%nat as L' by (unfold upd_edge in L; cbn [wedges set] in L; simpl in L; rewrite upd_length in L; exact L).
  unfold get_edge, upd_edge. cbn [wedges wlog set]. simpl. destruct (Nat.eq_dec e e') as [->|NE].
  - rewrite nth_upd_same by exact L'. cbn. rewrite (K C). apply (H C e' L').
  - rewrite nth_upd_other by exact NE. apply (H C e' L').
Qed.

Lemma logw_quiet_x w x : moves x = false -> PCx extra w -> PCx extra (logw w x).
Proof. intros Q H C e L. unfold logw. cbn [wlog wedges set]. simpl. rewrite inside_mid_quiet by exact Q. apply (H C e L). Qed.

Lemma upd_node_x w e f : PCx extra w -> PCx extra (upd_node w e f).
Proof. auto. Qed.
Lemma upd_proc_x w e f : PCx extra w -> PCx extra (upd_proc w e f).
Proof. auto. Qed.
Lemma upd_item_x w e f : PCx extra w -> PCx extra (upd_item w e f).
Proof. auto. Qed.
Lemma setpc_x w p pc : PCx extra w -> PCx extra (setpc w p pc).
Proof. auto. Qed.

Lemma w_succeed_x w e s : PCx extra w -> PCx extra (w_succeed w e s).
Proof. unfold w_succeed. intros H. destruct (succeed (wk w) e) eqn:E; [exact H|apply crashw_x]. Qed.
Lemma w_succeed_all_x es : forall w, PCx extra w -> PCx extra (w_succeed_all w es).
Proof. unfold w_succeed_all. induction es as [|e es IH]; simpl; auto. intros w H. apply IH. apply w_succeed_x, H. Qed.
Lemma w_event_x w w1 e : w_event w = (w1, e) -> PCx extra w -> PCx extra w1.
Proof. unfold w_event. simpl. intros [= <- _] H. exact H. Qed.
Lemma spawn_x w p w1 pid d : spawn w p = (w1, pid, d) -> PCx extra w -> PCx extra w1.
Proof.
  unfold spawn. intros E H.
  destruct (w_event w) as [wa done] eqn:E1. destruct (w_event wa) as [wb ini] eqn:E2.
  inversion E; subst. clear E.
  assert (PCx extra wb) as Hb by (eapply w_event_x; [exact E2|]; eapply w_event_x; [exact E1|]; exact H). exact Hb.
Qed.
Lemma e_update_level_x w e : PCx extra w -> PCx extra (e_update_level w e).
Proof. intros H. unfold e_update_level. apply upd_edge_keep_x; auto. Qed.
Lemma fleet_after_put_x w e : PCx extra w -> PCx extra (fleet_after_put w e).
Proof.
  unfold fleet_after_put. intros H. destruct (_ =? _)%nat; auto.
  destruct (e_trig _); auto. apply w_succeed_x, H.
Qed.
End Frame.

(* closing a pending trace entry *)
Lemma logw_close w x : PCx [x] w -> PC (logw w x).
Proof. intros H C e L. unfold logw. cbn [wlog wedges set]. simpl. rewrite app_nil_r. apply (H C e L). Qed.

(* an accepted put: the store of edge e gains the item, the trace entry is pending *)
Lemma put_site w e s' p t i ts tm :
  PC w -> StoreB.step (est (get_edge w e)) (StoreB.Put p t i) = (s', StoreB.OOk, ts) ->
  PCx [LPut tm e i] (upd_edge w e (fun x => x <| est := s' |>)).
Proof.
  intros H ES C e' L. assert (e' < length (wedges w))%nat as L' by (unfold upd_edge in L; cbn [wedges set] in L; simpl in L; rewrite upd_length in L; exact L).
  destruct (put_cont _ _ _ _ _ _ _ ES) as (P & _). specialize (P eq_refl).
  specialize (H C e' L'). unfold PC, PCx in H. rewrite app_nil_r in H.
  unfold get_edge, upd_edge. cbn [wedges wlog set]. simpl. rewrite inside_snoc. simpl.
  destruct (Nat.eq_dec e e') as [->|NE].
  - rewrite Nat.eqb_refl. rewrite nth_upd_same by exact L'. cbn. rewrite P. apply Permutation_app_tail. exact H.
  - destruct (Nat.eqb_spec e e'); [congruence|]. rewrite nth_upd_other by exact NE. exact H.
Qed.

(* a served get: the store loses the item, the trace entry is pending *)
Lemma get_site w e s' p t it ts tm n :
  PC w -> StoreB.step (est (get_edge w e)) (StoreB.Get p t) = (s', StoreB.OItem it, ts) ->
  PCx [LGet tm e it n] (upd_edge w e (fun x => x <| est := s' |>)).
Proof.
  intros H ES C e' L. assert (e' < length (wedges w))%nat as L' by (unfold upd_edge in L; cbn [wedges set] in L; simpl in L; rewrite upd_length in L; exact L).
  pose proof (get_cont _ _ _ _ _ _ ES) as P. simpl in P.
  specialize (H C e' L'). unfold PC, PCx in H. rewrite app_nil_r in H.
  unfold get_edge, upd_edge. cbn [wedges wlog set]. simpl. rewrite inside_snoc. simpl.
  destruct (Nat.eq_dec e e') as [->|NE].
  - rewrite Nat.eqb_refl. rewrite nth_upd_same by exact L'. cbn.
    assert (Permutation (inside e' (wlog w)) (it :: cont s')) as Q by (rewrite H; exact P).
    assert (In it (inside e' (wlog w))) as Hin by (eapply Permutation_in; [apply Permutation_sym; exact Q|left; reflexivity]).
    rewrite (perm_remove_first it _ Hin) in Q. apply Permutation_cons_inv in Q. exact Q.
  - destruct (Nat.eqb_spec e e'); [congruence|]. rewrite nth_upd_other by exact NE. exact H.
Qed.

(* ------------------------------------------------------------------ the primitives at an empty pending suffix *)
Create HintDb pdb.
Lemma crashw_p w c : PC (crashw w c).
Proof. apply crashw_x. Qed.
Lemma upd_node_p w e f : PC w -> PC (upd_node w e f).
Proof. apply upd_node_x. Qed.
Lemma upd_proc_p w e f : PC w -> PC (upd_proc w e f).
Proof. apply upd_proc_x. Qed.
Lemma upd_item_p w e f : PC w -> PC (upd_item w e f).
Proof. apply upd_item_x. Qed.
Lemma setpc_p w p pc : PC w -> PC (setpc w p pc).
Proof. apply setpc_x. Qed.
#[local] Hint Resolve crashw_p upd_node_p upd_proc_p upd_item_p setpc_p : pdb.
(* a trace entry that moves nothing *)
Lemma logw_p w x : moves x = false -> PC w -> PC (logw w x).
Proof. apply logw_quiet_x. Qed.
#[local] Hint Extern 2 (PC (logw _ _)) => (apply logw_p; [reflexivity|]) : pdb.
(* an edge update that leaves the store alone *)
Ltac est_side :=
  let x := fresh in intros x;
  first [reflexivity
        | repeat (match goal with
                  | |- context [if ?b then _ else _] => destruct b
                  | |- context [match ?b with _ => _ end] => destruct b
                  end); reflexivity].
Lemma upd_edge_keep_p w e f : (forall x, est (f x) = est x) -> PC w -> PC (upd_edge w e f).
Proof. apply upd_edge_keep_x. Qed.
#[local] Hint Extern 3 (PC (upd_edge _ _ _)) => (apply upd_edge_keep_p; [est_side|]) : pdb.




Lemma w_succeed_p w e s : PC w -> PC (w_succeed w e s).
Proof.
  unfold w_succeed. intros H. destruct (succeed (wk w) e) eqn:E; [exact H|apply crashw_p; auto].
Qed.
#[local] Hint Resolve w_succeed_p : pdb.

Lemma w_succeed_all_p es : forall w, PC w -> PC (w_succeed_all w es).
Proof. unfold w_succeed_all. induction es as [|e es IH]; simpl; auto. intros w H. apply IH. auto with pdb. Qed.
#[local] Hint Resolve w_succeed_all_p : pdb.

Lemma w_event_p w w1 e : w_event w = (w1, e) -> PC w -> PC w1.
Proof. unfold w_event. simpl. intros [= <- _] H. exact H. Qed.


Lemma w_timeout_p w d w1 e : w_timeout w d = (w1, e) -> PC w -> PC w1.
Proof.
  unfold w_timeout. destruct (d <? 0).
  - intros [= <- _] H. auto with pdb.
  - destruct (timeout (wk w) d) as [k e0]. intros [= <- _] H. exact H.
Qed.




Lemma w_any_of_p w es w1 c : w_any_of w es = (w1, c) -> PC w -> PC w1.
Proof.
  unfold w_any_of. destruct (any_of (wk w) es) as [k e0]. intros [= <- _] H. exact H.
Qed.

Lemma spawn_p w p w1 pid d : spawn w p = (w1, pid, d) -> PC w -> PC w1.
Proof.
  unfold spawn. intros E H.
  destruct (w_event w) as [wa done] eqn:E1. destruct (w_event wa) as [wb ini] eqn:E2.
  inversion E; subst. clear E.
  assert (PC wb) as Hb by (eapply w_event_p; [exact E2|]; eapply w_event_p; [exact E1|]; exact H). exact Hb.
Qed.



Lemma e_update_level_p w e : PC w -> PC (e_update_level w e).
Proof. apply e_update_level_x. Qed.


Lemma out_err_crash w e s : PC (out_err w (StoreB.OErr e) s).
Proof. unfold out_err. destruct e; apply crashw_x. Qed.

Lemma store_op_p w e o w1 r ts : store_op w e o = (w1, r, ts) -> neutral o = true -> PC w -> PC w1.
Proof.
  unfold store_op. destruct (StoreB.step _ _) as [[s' r0] ts0] eqn:E. intros [= <- _ _] N H.
  apply set_est_x; auto. intros _. rewrite (neutral_cont _ _ _ _ _ N E). reflexivity.
Qed.

Lemma out_err_p w r s : PC w -> PC (out_err w r s).
Proof. unfold out_err. intros H. destruct r; auto. destruct e; auto with pdb. Qed.
#[local] Hint Resolve out_err_p : pdb.

Lemma e_reserve_put_p w e p w1 t : e_reserve_put w e p = (w1, t) -> PC w -> PC w1.
Proof.
  unfold e_reserve_put. intros E H.
  destruct (w_event w) as [wa ev] eqn:E1. destruct (store_op wa e (StoreB.Sync ev)) as [[wb r1] t1] eqn:E2.
  destruct (store_op wb e (StoreB.RPut p 0)) as [[wc r2] t2] eqn:E3. inversion E; subst.
  apply w_succeed_all_p. eapply store_op_p; [exact E3|reflexivity|]. eapply store_op_p; [exact E2|reflexivity|]. eapply w_event_p; eauto.
Qed.

Lemma e_reserve_get_p w e p w1 t : e_reserve_get w e p = (w1, t) -> PC w -> PC w1.
Proof.
  unfold e_reserve_get. intros E H.
  destruct (w_event w) as [wa ev] eqn:E1. destruct (store_op wa e (StoreB.Sync ev)) as [[wb r1] t1] eqn:E2.
  destruct (store_op wb e (StoreB.RGet p 0)) as [[wc r2] t2] eqn:E3. inversion E; subst.
  apply w_succeed_all_p. eapply store_op_p; [exact E3|reflexivity|]. eapply store_op_p; [exact E2|reflexivity|]. eapply w_event_p; eauto.
Qed.

Lemma e_cancel_put_p w e t : PC w -> PC (e_cancel_put w e t).
Proof.
  unfold e_cancel_put. intros H. destruct (store_op w e (StoreB.CPut t)) as [[w1 r] ts] eqn:E.
  apply w_succeed_all_p, out_err_p. eapply store_op_p; [exact E|reflexivity|exact H].
Qed.
Lemma e_cancel_get_p w e t : PC w -> PC (e_cancel_get w e t).
Proof.
  unfold e_cancel_get. intros H. destruct (store_op w e (StoreB.CGet t)) as [[w1 r] ts] eqn:E.
  apply w_succeed_all_p, out_err_p. eapply store_op_p; [exact E|reflexivity|exact H].
Qed.
#[local] Hint Resolve e_cancel_put_p e_cancel_get_p : pdb.

Lemma fleet_after_put_p w e : PC w -> PC (fleet_after_put w e).
Proof.
  unfold fleet_after_put. intros H. destruct (_ =? _)%nat; auto.
  destruct (e_trig _); auto with pdb.
Qed.
#[local] Hint Resolve fleet_after_put_p : pdb.


Lemma e_put_p w e p t i : PC w -> PC (e_put w e p t i).
Proof.
  unfold e_put. intros H. destruct (ek (get_edge w e)).
  - destruct (_ <? 0); [apply crashw_x|].
    destruct (StoreB.step _ _) as [[s' r] ts] eqn:ES. destruct (put_res _ _ _ _ _ _ _ ES) as [->|(er & ->)].
    + destruct (spawn _ _) as [[w2 pid] d] eqn:E. apply logw_close, w_succeed_all_x.
      eapply spawn_x; [exact E|]. apply e_update_level_x.
      set (w0 := upd_edge w e (fun x => x <| edptr ::= S |>)).
      assert (PC w0) as H0 by (apply upd_edge_keep_x; auto).
      destruct (Nat.ltb_spec e (length (wedges w))) as [L|L].
      * eapply put_site; [exact H0|]. subst w0. rewrite est_get_upd; auto. exact ES.
      * (* no such edge: nothing changes *)
        intros C e' L'. exfalso. unfold w0, upd_edge in L'. cbn [wedges set] in L'. simpl in L'. rewrite !upd_length in L'.
        unfold get_edge in ES. rewrite nth_overflow in ES by exact L. simpl in ES. discriminate.
    + apply out_err_crash.
  - destruct (StoreB.step _ _) as [[s' r] ts] eqn:ES. destruct (put_res _ _ _ _ _ _ _ ES) as [->|(er & ->)].
    + apply logw_close, fleet_after_put_x, w_succeed_all_x, e_update_level_x. eapply put_site; [exact H|exact ES].
    + apply out_err_crash.
Qed.
#[local] Hint Resolve e_put_p : pdb.

Lemma e_get_p w e p t n w1 r : e_get w e p t n = (w1, r) -> PC w -> PC w1.
Proof.
  unfold e_get. intros E H. destruct (StoreB.step _ _) as [[s' r0] ts] eqn:ES. pose proof (get_cont _ _ _ _ _ _ ES) as G.
  destruct r0 as [?| |?|e0]; inversion E; subst; clear E.
  - simpl. apply set_est_x; auto.
  - simpl. apply set_est_x; auto.
  - apply logw_close, w_succeed_all_x, e_update_level_x. eapply get_site; eauto.
  - apply out_err_crash.
Qed.

Lemma update_state_p w n s : PC w -> PC (update_state w n s).
Proof. unfold update_state. intros H. destruct (nlast _); auto with pdb. Qed.
#[local] Hint Resolve update_state_p : pdb.

Lemma draw_delay_p w n w1 d : draw_delay w n = (w1, d) -> PC w -> PC w1.
Proof. unfold draw_delay. intros [= <- _] H. auto with pdb. Qed.

Lemma draw_sel_p w n o w1 v : draw_sel w n o = (w1, v) -> PC w -> PC w1.
Proof.
  unfold draw_sel. intros E H. destruct (if o then noutsel _ else ninsel _); inversion E; subst; auto with pdb.
Qed.

Lemma cancel_others_p l : forall w keep (put : bool), PC w ->
  PC (fold_left (fun (w : world) (et : nat * nat) => let '(e, t) := et in
                             if Nat.eqb t keep then w else if put then e_cancel_put w e t else e_cancel_get w e t) l w).
Proof.
  induction l as [|[e t] l IH]; simpl; auto. intros w keep put H. apply IH.
  destruct (Nat.eqb t keep); auto. destruct put; auto with pdb.
Qed.
Lemma cancel_others_pp w es ts keep put : PC w -> PC (cancel_others w es ts keep put).
Proof. unfold cancel_others. apply cancel_others_p. Qed.
#[local] Hint Resolve cancel_others_pp : pdb.

Lemma reserve_all_p pid (put : bool) es : forall w l w1 l1,
  fold_left (fun (acc : world * list nat) (e : nat) => let '(w, l) := acc in
                          let '(w', t) := if put then e_reserve_put w e pid else e_reserve_get w e pid in (w', l ++ [t]))
            es (w, l) = (w1, l1) -> PC w -> PC w1.
Proof.
  induction es as [|e es IH]; simpl; intros w l w1 l1 E H.
  - inversion E; subst; auto.
  - destruct put.
    + destruct (e_reserve_put w e pid) as [w' t] eqn:E1. eapply IH; [exact E|]. eapply e_reserve_put_p; eauto.
    + destruct (e_reserve_get w e pid) as [w' t] eqn:E1. eapply IH; [exact E|]. eapply e_reserve_get_p; eauto.
Qed.
Lemma reserve_all_pp w pid es put w1 l1 : reserve_all w pid es put = (w1, l1) -> PC w -> PC w1.
Proof. unfold reserve_all. apply reserve_all_p. Qed.

Lemma set_creation_p w i n : PC w -> PC (set_creation w i n).
Proof. intros H. unfold set_creation. auto 8 with pdb. Qed.
Lemma update_state_rep_p w n : PC w -> PC (update_state_rep w n).
Proof.
  unfold update_state_rep. intros H. destruct (nlast _); auto with pdb.
  destruct (nsrep _). destruct (count_threads _). destruct (_ >? _); auto with pdb.
Qed.
Lemma occupancy_p w n a : PC w -> PC (occupancy w n a).
Proof. intros H. unfold occupancy. auto 8 with pdb. Qed.
Lemma set_thread_p w n p b : PC w -> PC (set_thread w n p b).
Proof. intros H. unfold set_thread. auto 8 with pdb. Qed.
Lemma add_blocked_time_p w p n : PC w -> PC (add_blocked_time w p n).
Proof. intros H. unfold add_blocked_time. auto 8 with pdb. Qed.
#[local] Hint Resolve set_creation_p update_state_rep_p occupancy_p set_thread_p add_blocked_time_p : pdb.

(* tactic: split every let / match / if of a block, derive PC of each intermediate world from the
   equation that introduced it *)
Ltac kstep :=
  match goal with
  | E : w_timeout ?w _ = (?w1, _) |- _ => assert (PC w1) by (eapply w_timeout_p; [exact E|auto 14 with pdb]); clear E
  | E : w_event ?w = (?w1, _) |- _ => assert (PC w1) by (eapply w_event_p; [exact E|auto 14 with pdb]); clear E
  | E : w_any_of ?w _ = (?w1, _) |- _ => assert (PC w1) by (eapply w_any_of_p; [exact E|auto 14 with pdb]); clear E
  | E : spawn ?w _ = (?w1, _, _) |- _ => assert (PC w1) by (eapply spawn_p; [exact E|auto 14 with pdb]); clear E
  | E : store_op ?w _ _ = (?w1, _, _) |- _ => assert (PC w1) by (eapply store_op_p; [exact E|reflexivity|auto 14 with pdb]); clear E
  | E : e_reserve_put ?w _ _ = (?w1, _) |- _ => assert (PC w1) by (eapply e_reserve_put_p; [exact E|auto 14 with pdb]); clear E
  | E : e_reserve_get ?w _ _ = (?w1, _) |- _ => assert (PC w1) by (eapply e_reserve_get_p; [exact E|auto 14 with pdb]); clear E
  | E : e_get ?w _ _ _ _ = (?w1, _) |- _ => assert (PC w1) by (eapply e_get_p; [exact E|auto 14 with pdb]); clear E
  | E : draw_delay ?w _ = (?w1, _) |- _ => assert (PC w1) by (eapply draw_delay_p; [exact E|auto 14 with pdb]); clear E
  | E : draw_sel ?w _ _ = (?w1, _) |- _ => assert (PC w1) by (eapply draw_sel_p; [exact E|auto 14 with pdb]); clear E
  | E : reserve_all ?w _ _ _ = (?w1, _) |- _ => assert (PC w1) by (eapply reserve_all_pp; [exact E|auto 14 with pdb]); clear E
  end.

Ltac ksplit :=
  repeat (match goal with
          | |- context [let '(_, _) := ?x in _] => destruct x as [? ?] eqn:?; try kstep
          | |- context [match ?x with _ => _ end] => destruct x eqn:?; try kstep
          end; simpl fst).

Ltac kauto := ksplit; simpl; auto 10 with pdb.

Ltac ksplit2 :=
  repeat (cbv zeta;
          match goal with
          | |- context [match ?x with _ => _ end] => destruct x eqn:?; repeat kstep; simpl fst
          end).
Ltac kgo := ksplit2; simpl; auto 12 with pdb.

Lemma source_loop_p w p n : PC w -> PC (fst (source_loop w p n)).
Proof. intros H. unfold source_loop. kgo. Qed.

Lemma spawn_push_p w n i e b : PC w -> PC (fst (spawn_push w n i e b)).
Proof. intros H. unfold spawn_push. kgo. Qed.

#[local] Hint Resolve source_loop_p spawn_push_p : pdb.

Lemma eqform {A} (f : world * A) w1 a : f = (w1, a) -> PC (fst f) -> PC w1.
Proof. intros ->. auto. Qed.

Ltac kstep2 :=
  match goal with
  | E : spawn_push ?w _ _ _ _ = (?w1, _) |- _ =>
      assert (PC w1) by (eapply eqform; [exact E|apply spawn_push_p; auto 14 with pdb]); clear E
  end.

Ltac ksplit3 :=
  repeat (cbv zeta;
          match goal with
          | |- context [match ?x with _ => _ end] => destruct x eqn:?; repeat (kstep || kstep2); cbn [fst snd]
          end).
#[local] Hint Extern 6 (PC (set _ _ _)) => (unfold PC, PCx; cbn [wedges wcrash wlog set]; progress simpl) : pdb.
Ltac kgo3 := ksplit3; cbn [fst snd]; auto 14 with pdb.

Lemma source_block_p w p : PC w -> PC (fst (source_block w p)).
Proof. intros H. unfold source_block. kgo3. Qed.

Lemma push_block_p w p : PC w -> PC (fst (push_block w p)).
Proof. intros H. unfold push_block. kgo3. Qed.

(* the arrival of an item at the ready end keeps the occupancy; a refused arrival raises *)
Lemma ready_site_p w e i w1 r ts site (g : edge -> edge) :
  (forall x, est (g x) = est x) ->
  PC w -> store_op w e (StoreB.Ready i) = (w1, r, ts) -> PC (out_err (upd_edge w1 e g) r site).
Proof.
  intros G H. unfold store_op. destruct (StoreB.step _ _) as [[s' r0] ts0] eqn:ES. intros [= <- <- _].
  pose proof (ready_cont _ _ _ _ _ ES) as K. destruct r0 as [?| |?|e0]; try (destruct K; fail).
  - simpl. apply upd_edge_keep_x; auto. apply set_est_x; auto.
  - apply out_err_crash.
Qed.

Lemma ready_site_p0 w e i w1 r ts site :
  PC w -> store_op w e (StoreB.Ready i) = (w1, r, ts) -> PC (out_err w1 r site).
Proof.
  intros H. unfold store_op. destruct (StoreB.step _ _) as [[s' r0] ts0] eqn:ES. intros [= <- <- _].
  pose proof (ready_cont _ _ _ _ _ ES) as K. destruct r0 as [?| |?|e0]; try (destruct K; fail).
  - simpl. apply set_est_x; auto.
  - apply out_err_crash.
Qed.

Lemma buftimer_block_p w p : PC w -> PC (fst (buftimer_block w p)).
Proof.
  intros H. unfold buftimer_block. cbv zeta. destruct (ppc (me w p)).
  - kgo3.
  - destruct (store_op w _ _) as [[w1 r] ts] eqn:E. cbn [fst]. apply w_succeed_all_p.
    eapply ready_site_p0; [exact H|exact E].
Qed.

Lemma sink_loop_p w p n : PC w -> PC (fst (sink_loop w p n)).
Proof. intros H. unfold sink_loop. kgo3. Qed.
#[local] Hint Resolve sink_loop_p : pdb.

Lemma sink_block_p w p : PC w -> PC (fst (sink_block w p)).
Proof. intros H. unfold sink_block. kgo3. Qed.


Lemma machine_request_p w p n : PC w -> PC (fst (machine_request w p n)).
Proof.
  intros H. unfold machine_request. cbv zeta.
  assert (PC (update_state_rep w n)) as H1 by auto with pdb.
  destruct (res_request (wk (update_state_rep w n)) n (nres (get_node (update_state_rep w n) n))) as [[[k r] q]|] eqn:E; cbn [fst].
  - apply setpc_p, upd_proc_p. apply upd_node_p. exact H1.
  - auto with pdb.
Qed.
#[local] Hint Resolve machine_request_p : pdb.

Lemma machine_start_worker_p w p n i : PC w -> PC (fst (machine_start_worker w p n i)).
Proof. intros H. unfold machine_start_worker. kgo3. Qed.
#[local] Hint Resolve machine_start_worker_p : pdb.

Lemma machine_block_p w p : PC w -> PC (fst (machine_block w p)).
Proof. intros H. unfold machine_block. kgo3. Qed.

Lemma worker_release_p w p n : PC w -> PC (fst (worker_release w p n)).
Proof.
  intros H. unfold worker_release. cbv zeta.
  destruct (res_release (wk w) n (nres (get_node w n)) (ptk (me w p))) as [[[k r] g]|] eqn:E; cbn [fst].
  - apply setpc_p. apply upd_node_p. exact H.
  - auto with pdb.
Qed.
#[local] Hint Resolve worker_release_p : pdb.

Lemma worker_block_p w p : PC w -> PC (fst (worker_block w p)).
Proof. intros H. unfold worker_block. kgo3. Qed.

Lemma fleet_loop_p w p e : PC w -> PC (fst (fleet_loop w p e)).
Proof. intros H. unfold fleet_loop. kgo3. Qed.
#[local] Hint Resolve fleet_loop_p : pdb.

Lemma fleetact_block_p w p : PC w -> PC (fst (fleetact_block w p)).
Proof.
  intros H. unfold fleetact_block. cbv zeta.
  destruct (ppc (me w p)); [apply fleet_loop_p; auto|].
  destruct (StoreB.transit _) eqn:ET; [apply fleet_loop_p; auto|].
  match goal with |- context [fleet_loop (if _ then _ else ?w1) _ _] => set (wb := w1) end.
  assert (PC wb) as H1.
  { subst wb. match goal with |- PC (match ?b with _ => _ end) => destruct b end; auto.
    all: try (destruct (spawn _ _) as [[w2 pid] d] eqn:E; eapply spawn_p; [exact E|]; auto with pdb). }
  clearbody wb.
  destruct (e_trig _).
  - destruct (w_event wb) as [w3 a] eqn:E2. apply fleet_loop_p.
    assert (PC w3) as H3 by (eapply w_event_p; eauto). auto with pdb.
  - apply fleet_loop_p. exact H1.
Qed.

Lemma fleetmove_fold_p e l : forall w, PC w ->
  PC (fold_left (fun (w : world) (it : nat) =>
                    match wcrash w with
                    | Some _ => w
                    | None =>
                        let '(w1, r, ts) := store_op w e (StoreB.Ready it) in
                        let w2 := upd_edge w1 e (fun x => x <| eintransit ::= filter (fun t => negb (Nat.eqb t it)) |>) in
                        w_succeed_all (out_err w2 r 61) ts
                    end) l w).
Proof.
  induction l as [|x l IH]; simpl; auto. intros w H. apply IH.
  destruct (wcrash w); auto. destruct (store_op w e (StoreB.Ready x)) as [[w1 r] ts] eqn:E.
  apply w_succeed_all_p. eapply ready_site_p; [|exact H|exact E]. intros y. reflexivity.
Qed.

Lemma fleetmove_block_p w p : PC w -> PC (fst (fleetmove_block w p)).
Proof.
  intros H. unfold fleetmove_block. cbv zeta.
  destruct (ppc (me w p)) as [|[|?]]; cbn [fst].
  - destruct (plst (me w p)); cbn [fst]; auto. destruct (w_timeout _ _) as [w1 t] eqn:E. cbn [fst].
    apply setpc_p. eapply w_timeout_p; eauto.
  - destruct (w_timeout _ _) as [w1 t] eqn:E. cbn [fst]. apply setpc_p. eapply w_timeout_p; eauto.
  - apply fleetmove_fold_p. auto.
Qed.

Lemma check_state_p w n : PC w -> PC (check_state w n).
Proof. intros H. unfold check_state. destruct (count_threads _). kgo3. Qed.
#[local] Hint Resolve check_state_p : pdb.

Lemma sc_request_p w p n pc : PC w -> PC (fst (sc_request w p n pc)).
Proof.
  intros H. unfold sc_request.
  destruct (res_request (wk w) n (nres (get_node w n))) as [[[k r] q]|] eqn:E; cbn [fst].
  - apply setpc_p, upd_proc_p. apply upd_node_p. exact H.
  - auto with pdb.
Qed.
Lemma sc_release_p w p n : PC w -> PC (fst (sc_release w p n)).
Proof.
  intros H. unfold sc_release.
  destruct (res_release (wk w) n (nres (get_node w n)) (ptk (me w p))) as [[[k r] g]|] eqn:E; cbn [fst].
  - apply setpc_p. apply upd_node_p. exact H.
  - auto with pdb.
Qed.
#[local] Hint Resolve sc_request_p sc_release_p : pdb.

Lemma sc_dispatch_p w p n c ph : PC w -> PC (fst (sc_dispatch w p n c ph)).
Proof. intros H. unfold sc_dispatch. kgo3. Qed.
#[local] Hint Resolve sc_dispatch_p : pdb.

Lemma sc_next_p w p n : PC w -> PC (fst (sc_next w p n)).
Proof. intros H. unfold sc_next. kgo3. Qed.
#[local] Hint Resolve sc_next_p : pdb.

Lemma sc_worker_cont_p w p n : PC w -> PC (fst (sc_worker_cont w p n)).
Proof. intros H. unfold sc_worker_cont. kgo3. Qed.
#[local] Hint Resolve sc_worker_cont_p : pdb.

Lemma sc_run_p f : forall w p n r, PC (fst r) -> PC (fst (sc_run f w p n r)).
Proof.
  induction f as [|f IH]; simpl; intros w p n r H; auto with pdb.
  destruct r as [w1 y]. cbn [fst] in *. destruct (wcrash w1); auto.
  destruct (Nat.eqb _ 8); auto. apply IH. auto with pdb.
Qed.

Lemma splitworker_block_p w p : PC w -> PC (fst (splitworker_block w p)).
Proof.
  intros H. unfold splitworker_block. cbv zeta. destruct (ppc (me w p)) as [|[|?]].
  - kgo3.
  - match goal with |- context [if ?b then _ else _] => destruct b end; cbn [fst]; auto with pdb.
    apply sc_run_p. auto 12 with pdb.
  - apply sc_run_p. auto with pdb.
Qed.

Lemma combworker_block_p w p : PC w -> PC (fst (combworker_block w p)).
Proof.
  intros H. unfold combworker_block. cbv zeta. destruct (ppc (me w p)); apply sc_run_p; auto with pdb.
Qed.

Lemma splitter_head_p w p n : PC w -> PC (fst (splitter_head w p n)).
Proof. intros H. unfold splitter_head. kgo3. Qed.
#[local] Hint Resolve splitter_head_p : pdb.

Lemma splitter_start_p w p n pal : PC w -> PC (fst (splitter_start w p n pal)).
Proof. intros H. unfold splitter_start. kgo3. Qed.
#[local] Hint Resolve splitter_start_p : pdb.

Lemma splitter_block_p w p : PC w -> PC (fst (splitter_block w p)).
Proof. intros H. unfold splitter_block. kgo3. Qed.

Lemma combiner_head_p w p n : PC w -> PC (fst (combiner_head w p n)).
Proof. intros H. unfold combiner_head. kgo3. Qed.
#[local] Hint Resolve combiner_head_p : pdb.

Lemma combiner_rep_p e p k0 j : forall a, PC (fst (fst a)) -> PC (fst (fst (comb_rep e p k0 j a))).
Proof.
  induction j as [|j IH]; intros [[w0 ts] ix] H; simpl; auto.
  destruct (e_reserve_get w0 e p) as [w1 t] eqn:E. apply IH. cbn [fst]. eapply e_reserve_get_p; eauto.
Qed.

Lemma combiner_go_p rc p es : forall k acc r, PC (fst (fst acc)) -> comb_go rc p k es acc = Some r -> PC (fst (fst r)).
Proof.
  induction es as [|e es IH]; simpl; intros k acc r HA EQ.
  - inversion EQ; subst; auto.
  - destruct (nth_error rc k) as [q|]; [|discriminate]. eapply IH; [|exact EQ]. apply combiner_rep_p. exact HA.
Qed.

Lemma combiner_reserve_p w p n w1 a b : combiner_reserve w p n = Some (w1, a, b) -> PC w -> PC w1.
Proof.
  unfold combiner_reserve. intros E H.
  assert (PC (fst (fst (w1, a, b)))) as K by (eapply combiner_go_p; [|exact E]; cbn [fst]; exact H). exact K.
Qed.

Lemma combiner_loop_p w p n : PC w -> PC (fst (combiner_loop w p n)).
Proof. intros H. unfold combiner_loop. kgo3. Qed.
#[local] Hint Resolve combiner_loop_p : pdb.

Lemma combiner_block_p w p : PC w -> PC (fst (combiner_block w p)).
Proof.
  intros H. unfold combiner_block. cbv zeta.
  destruct (ppc (me w p)) as [|[|[|[|[|[|?]]]]]].
  - kgo3.
  - auto with pdb.
  - destruct (e_get _ _ _ _ _) as [w1 it] eqn:E. assert (PC w1) by (eapply e_get_p; eauto).
    destruct it; cbn [fst]; auto. destruct (negb _); cbn [fst]; auto with pdb.
    destruct (combiner_reserve w1 p (pown (me w p))) as [[[w2 a] b]|] eqn:E2; cbn [fst]; auto with pdb.
    assert (PC w2) by (eapply combiner_reserve_p; eauto).
    destruct (w_any_of w2 a) as [w3 c] eqn:E3. cbn [fst]. apply setpc_p, upd_proc_p. eapply w_any_of_p; eauto.
  - auto with pdb.
  - kgo3.
  - kgo3.
  - kgo3.
Qed.

Lemma block_p w p : PC w -> PC (fst (block w p)).
Proof.
  intros H. unfold block. destruct (pkd (me w p)); cbn [fst]; auto with pdb;
    first [apply source_block_p | apply machine_block_p | apply worker_block_p | apply sink_block_p | apply push_block_p
          | apply buftimer_block_p | apply fleetact_block_p | apply fleetmove_block_p | apply splitter_block_p
          | apply splitworker_block_p | apply combiner_block_p | apply combworker_block_p]; auto.
Qed.

Lemma resume_p f : forall w p, PC w -> PC (resume f w p).
Proof.
  induction f as [|f IH]; simpl; intros w p H; auto with pdb.
  destruct (wcrash w); auto.
  pose proof (block_p (w <| wactive := p |>) p) as B.
  destruct (block (w <| wactive := p |>) p) as [w1 y]. cbn [fst] in B.
  assert (PC w1) as H1 by (apply B; exact H).
  destruct (wcrash w1); auto. destruct y.
  - destruct (e_proc _); [apply IH; exact H1|]. exact H1.
  - apply upd_proc_p. exact H1.
Qed.

Lemma run_cb_p w c : PC w -> PC (run_cb w c).
Proof.
  intros H. unfold run_cb. destruct (wcrash w); auto. destruct c.
  - destruct (_ <? _)%nat; [apply resume_p; auto|apply crashw_p; auto].
  - exact H.
  - destruct (res_trig_get _ _) as [[k0 r0]|] eqn:E; auto with pdb; apply upd_node_p; exact H.
  - destruct (res_trig_put _ _) as [[k0 r0]|] eqn:E; auto with pdb; apply upd_node_p; exact H.
  - exact H.
Qed.


Lemma run_cbs_p l : forall w, PC w -> PC (fold_left run_cb l w).
Proof. induction l as [|c l IH]; simpl; auto. intros w H. apply IH, run_cb_p, H. Qed.



Theorem fstep_p w w' : PC w -> fstep w = Some w' -> PC w'.
Proof.
  unfold fstep. intros H. destruct (wcrash w) eqn:C; [discriminate|].
  destruct (pop (wk w)) as [[[k e] cbs]|] eqn:E; [|discriminate]. intros [= <-].
  apply run_cbs_p. unfold PC, PCx in *. cbn [wcrash wedges wlog set]. exact H.
Qed.

Lemma mk_step_p w c : PC w -> PC (mk_step w c).
Proof.
  intros H. unfold mk_step. destruct c as [b i]. destruct b.
  - cbv zeta. match goal with |- context [spawn ?a ?b] => destruct (spawn a b) as [[w' pid] d] eqn:E end.
    eapply spawn_p; eauto.
  - destruct (ek (get_edge w i)); auto;
      destruct (w_event w) as [w1 act] eqn:E1; cbv zeta;
      match goal with |- context [spawn ?a ?b] => destruct (spawn a b) as [[w' pid] d] eqn:E end;
      (eapply spawn_p; [exact E|]); assert (PC w1) as H1 by (eapply w_event_p; eauto); auto with pdb.
Qed.

Lemma mk_world_p nodes edges order :
  (forall ed, In ed edges -> cont (est ed) = []) -> PC (mk_world nodes edges order).
Proof.
  unfold mk_world. intros H0.
  assert (forall l w, PC w -> PC (fold_left mk_step l w)) as G.
  { induction l as [|c l IH]; simpl; auto. intros w H. apply IH, mk_step_p, H. }
  apply G. intros _ e L. simpl in *. unfold get_edge. simpl. rewrite H0; [reflexivity|]. apply nth_In. exact L.
Qed.

(* C03 (inside the edges), for every factory configuration whose edges start empty, and every number
   of kernel steps: unless the run crashed, the items inside an edge are exactly the items the trace
   says were put on it and not yet taken from it -- no item appears in or vanishes from an edge *)
Theorem edge_conservation nodes edges order n :
  (forall ed, In ed edges -> cont (est ed) = []) ->
  let w := FactoryInv.iter_fstep n (mk_world nodes edges order) in
  wcrash w = None ->
  forall e, (e < length (wedges w))%nat ->
    Permutation (inside e (wlog w))
                (StoreB.transit (est (get_edge w e)) ++ StoreB.ready (est (get_edge w e))).
Proof.
  intros H0.
  assert (forall m w, PC w -> PC (FactoryInv.iter_fstep m w)) as G.
  { induction m as [|m IH]; simpl; intros w H; auto. destruct (fstep w) as [w'|] eqn:E; auto.
    apply IH. eapply fstep_p; eauto. }
  intros w C e L. pose proof (G n _ (mk_world_p nodes edges order H0) C e L) as K.
  rewrite app_nil_r in K. exact K.
Qed.
