(* C15 -- FIRST_AVAILABLE picks the lowest index: the two selection functions every node process of the
   model uses ([first_can_put] for the non-blocking output side, [first_triggered] for the blocking sides)
   return the first position whose test succeeds, and None exactly when none does. *)
From Coq Require Import List ZArith Lia Bool Arith.
From FV Require Import Kernel World Factory.
Import ListNotations.

Theorem first_can_put_spec w es :
  match first_can_put w es with
  | Some e => exists a b, es = a ++ e :: b /\ e_can_put w e = true /\ (forall x, In x a -> e_can_put w x = false)
  | None => forall x, In x es -> e_can_put w x = false
  end.
Proof.
  unfold first_can_put. induction es as [|e r IH]; simpl.
  - intros x [].
  - destruct (e_can_put w e) eqn:E.
    + exists [], r. repeat split; auto; intros x [].
    + destruct ((fix go (l : list nat) : option nat :=
                   match l with [] => None | e0 :: r0 => if e_can_put w e0 then Some e0 else go r0 end) r) as [e'|].
      * destruct IH as (a & b & -> & H1 & H2). exists (e :: a), b. repeat split; auto.
        intros x [<-|I]; auto.
      * intros x [<-|I]; auto.
Qed.

Lemma first_triggered_go w l : forall i,
  match (fix go (i : nat) (l : list nat) : option (nat * nat) :=
           match l with [] => None | t :: r => if e_trig (get_ev (wk w) t) then Some (i, t) else go (S i) r end) i l with
  | Some (j, t) => exists a b, l = a ++ t :: b /\ j = (i + length a)%nat /\ e_trig (get_ev (wk w) t) = true /\
                               (forall x, In x a -> e_trig (get_ev (wk w) x) = false)
  | None => forall x, In x l -> e_trig (get_ev (wk w) x) = false
  end.
Proof.
  induction l as [|t r IH]; intros i; simpl.
  - intros x [].
  - destruct (e_trig (get_ev (wk w) t)) eqn:E.
    + exists [], r. repeat split; auto; try (simpl; lia); intros x [].
    + specialize (IH (S i)).
      destruct ((fix go (i0 : nat) (l0 : list nat) : option (nat * nat) :=
                   match l0 with [] => None | t0 :: r0 => if e_trig (get_ev (wk w) t0) then Some (i0, t0) else go (S i0) r0 end) (S i) r)
        as [[j t']|].
      * destruct IH as (a & b & -> & H0 & H1 & H2). exists (t :: a), b. repeat split; auto; try (simpl; lia).
        intros x [<-|I]; auto.
      * intros x [<-|I]; auto.
Qed.

Theorem first_triggered_spec w toks :
  match first_triggered w toks with
  | Some (j, t) => exists a b, toks = a ++ t :: b /\ j = length a /\ e_trig (get_ev (wk w) t) = true /\
                               (forall x, In x a -> e_trig (get_ev (wk w) x) = false)
  | None => forall x, In x toks -> e_trig (get_ev (wk w) x) = false
  end.
Proof. unfold first_triggered. apply (first_triggered_go w toks 0%nat). Qed.
