(* C07 at the level of the edge wrappers of the factory model: a put / get / cancel offered to an edge with a token that edge's
   store does not hold for the caller -- in particular a token that ANOTHER edge issued -- is refused with the documented error
   (the run ends with an unhandled RuntimeError), and no store of the factory, the kernel and the movement log are touched:
   the request stays where it was placed. *)
From Coq Require Import List ZArith Lia Bool Arith.
From RecordUpdate Require Import RecordUpdate.
From FV Require Import ListLemmas Kernel World Factory.
From FV Require FactoryTok.
From FV Require StoreB StoreBOrder.
Import ListNotations.

Lemma nth_upd_other {A} n m (f : A -> A) : forall l d, n <> m -> nth m (upd n f l) d = nth m l d.
Proof. revert m; induction n as [|n IH]; intros m [|x l] d NE; destruct m; simpl in *; try lia; auto. Qed.

Lemma est_upd_same w e e' (g : edge -> edge) :
  (forall x, est (g x) = est x) ->
  est (get_edge (upd_edge w e (fun x => g x <| est := est (get_edge w e) |>)) e') = est (get_edge w e').
Proof.
  intros G. unfold get_edge, upd_edge. cbn [wedges set]. simpl.
  destruct (Nat.eq_dec e e') as [<-|NE].
  - destruct (lt_dec e (length (wedges w))) as [L|L].
    + rewrite FactoryTok.nth_upd_same by exact L. reflexivity.
    + rewrite FactoryTok.upd_none; [reflexivity|]. apply nth_error_None. lia.
  - rewrite nth_upd_other by exact NE. reflexivity.
Qed.

(* what a refused call leaves alone *)
Definition untouched (w w' : world) : Prop :=
  (forall e, est (get_edge w' e) = est (get_edge w e)) /\ wk w' = wk w /\ wlog w' = wlog w /\
  wnodes w' = wnodes w /\ wprocs w' = wprocs w /\ witems w' = witems w.

Lemma crashw_untouched w0 w c : untouched w0 w -> untouched w0 (crashw w c).
Proof. unfold crashw. destruct (wcrash w); auto. Qed.
Lemma crashw_crashed w c : wcrash w = None -> wcrash (crashw w c) = Some c.
Proof. unfold crashw. intros ->. reflexivity. Qed.

Theorem cancel_put_refused w e t :
  StoreBOrder.illformed (est (get_edge w e)) (StoreB.CPut t) = true ->
  let w' := e_cancel_put w e t in
  untouched w w' /\ (wcrash w = None -> wcrash w' = Some (CRuntime 10)).
Proof.
  intros I. unfold e_cancel_put, store_op. rewrite (StoreBOrder.rejected_is_noop _ _ I). cbn [w_succeed_all fold_left out_err].
  split.
  - apply crashw_untouched. repeat split; auto. intros e'. apply (est_upd_same w e e' (fun x => x)). reflexivity.
  - intros NC. apply crashw_crashed. exact NC.
Qed.

Theorem cancel_get_refused w e t :
  StoreBOrder.illformed (est (get_edge w e)) (StoreB.CGet t) = true ->
  let w' := e_cancel_get w e t in
  untouched w w' /\ (wcrash w = None -> wcrash w' = Some (CRuntime 11)).
Proof.
  intros I. unfold e_cancel_get, store_op. rewrite (StoreBOrder.rejected_is_noop _ _ I). cbn [w_succeed_all fold_left out_err].
  split.
  - apply crashw_untouched. repeat split; auto. intros e'. apply (est_upd_same w e e' (fun x => x)). reflexivity.
  - intros NC. apply crashw_crashed. exact NC.
Qed.

Theorem get_refused w e p t n :
  StoreBOrder.illformed (est (get_edge w e)) (StoreB.Get p t) = true ->
  let r := e_get w e p t n in
  untouched w (fst r) /\ snd r = None /\ (wcrash w = None -> wcrash (fst r) = Some (CRuntime 33)).
Proof.
  intros I. unfold e_get. rewrite (StoreBOrder.rejected_is_noop _ _ I). cbn [out_err fst snd].
  split; [|split].
  - apply crashw_untouched. repeat split; auto. intros e'. apply (est_upd_same w e e' (fun x => x)). reflexivity.
  - reflexivity.
  - intros NC. apply crashw_crashed. exact NC.
Qed.

(* the hand-over: a Fleet refuses at once; a Buffer has drawn its delay by then (its delay stream has moved on, and a negative
   delay is the assertion of the Buffer, not the store's refusal) -- the stores, the kernel and the log are as before *)
Theorem put_refused w e p t i :
  StoreBOrder.illformed (est (get_edge w e)) (StoreB.Put p t i) = true ->
  let w' := e_put w e p t i in
  (forall e', est (get_edge w' e') = est (get_edge w e')) /\ wk w' = wk w /\ wlog w' = wlog w /\
  wnodes w' = wnodes w /\ wprocs w' = wprocs w /\ witems w' = witems w /\
  (wcrash w = None -> exists c, wcrash w' = Some c /\ (c = CRuntime 31 \/ c = CRuntime 32 \/ c = CAssert 30)).
Proof.
  intros I. unfold e_put. destruct (ek (get_edge w e)).
  - destruct (_ <? 0).
    + assert (untouched w (crashw (upd_edge w e (fun x => x <| edptr ::= S |>)) (CAssert 30))) as U.
      { apply crashw_untouched. repeat split; auto. intros e'.
        unfold get_edge, upd_edge. cbn [wedges set]. simpl.
        destruct (Nat.eq_dec e e') as [<-|NE].
        - destruct (lt_dec e (length (wedges w))) as [L|L].
          + rewrite FactoryTok.nth_upd_same by exact L. reflexivity.
          + rewrite FactoryTok.upd_none; [reflexivity|]. apply nth_error_None. lia.
        - rewrite nth_upd_other by exact NE. reflexivity. }
      destruct U as (A & B & C & D & E & F). repeat split; auto.
      intros NC. eexists. split; [apply crashw_crashed; exact NC|auto].
    + rewrite (StoreBOrder.rejected_is_noop _ _ I). cbn [out_err].
      assert (untouched w (crashw (upd_edge (upd_edge w e (fun x => x <| edptr ::= S |>)) e
                                     (fun x => x <| est := est (get_edge w e) |>)) (CRuntime 31))) as U.
      { apply crashw_untouched. repeat split; auto. intros e'.
        unfold get_edge, upd_edge. cbn [wedges set]. simpl. rewrite FactoryTok.upd_upd.
        destruct (Nat.eq_dec e e') as [<-|NE].
        - destruct (lt_dec e (length (wedges w))) as [L|L].
          + rewrite FactoryTok.nth_upd_same by exact L. reflexivity.
          + rewrite FactoryTok.upd_none; [reflexivity|]. apply nth_error_None. lia.
        - rewrite nth_upd_other by exact NE. reflexivity. }
      destruct U as (A & B & C & D & E & F). repeat split; auto.
      intros NC. eexists. split; [apply crashw_crashed; exact NC|auto].
  - rewrite (StoreBOrder.rejected_is_noop _ _ I). cbn [out_err].
    assert (untouched w (crashw (upd_edge w e (fun x => x <| est := est (get_edge w e) |>)) (CRuntime 32))) as U.
    { apply crashw_untouched. repeat split; auto. intros e'. apply (est_upd_same w e e' (fun x => x)). reflexivity. }
    destruct U as (A & B & C & D & E & F). repeat split; auto.
    intros NC. eexists. split; [apply crashw_crashed; exact NC|auto].
Qed.

(* a token that another edge holds and this edge does not: cancelling it HERE is refused and it is still held THERE *)
Definition holds_put (w : world) (e t : nat) : bool :=
  existsb (StoreB.tokb t) (StoreB.putq (est (get_edge w e))) || existsb (StoreB.tokb t) (StoreB.putres (est (get_edge w e))).
Definition holds_get (w : world) (e t : nat) : bool :=
  existsb (StoreB.tokb t) (StoreB.getq (est (get_edge w e))) || existsb (StoreB.tokb2 t) (StoreB.getres (est (get_edge w e))).

Theorem foreign_cancel_put_refused w e e' t :
  holds_put w e t = false -> holds_put w e' t = true ->
  let w' := e_cancel_put w e t in
  holds_put w' e' t = true /\ holds_put w' e t = false /\ (wcrash w = None -> wcrash w' = Some (CRuntime 10)).
Proof.
  intros N H w'. assert (StoreBOrder.illformed (est (get_edge w e)) (StoreB.CPut t) = true) as I.
  { unfold holds_put in N. apply orb_false_elim in N as (A & B). cbn [StoreBOrder.illformed]. rewrite A, B. reflexivity. }
  destruct (cancel_put_refused w e t I) as ((U & _) & C). fold w' in U, C.
  unfold holds_put in *. rewrite !U. unfold holds_put in N. auto.
Qed.

Theorem foreign_cancel_get_refused w e e' t :
  holds_get w e t = false -> holds_get w e' t = true ->
  let w' := e_cancel_get w e t in
  holds_get w' e' t = true /\ holds_get w' e t = false /\ (wcrash w = None -> wcrash w' = Some (CRuntime 11)).
Proof.
  intros N H w'. assert (StoreBOrder.illformed (est (get_edge w e)) (StoreB.CGet t) = true) as I.
  { unfold holds_get in N. apply orb_false_elim in N as (A & B). cbn [StoreBOrder.illformed]. rewrite A, B. reflexivity. }
  destruct (cancel_get_refused w e t I) as ((U & _) & C). fold w' in U, C.
  unfold holds_get in *. rewrite !U. auto.
Qed.
