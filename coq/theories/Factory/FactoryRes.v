(* Whole-factory invariant NI: in every reachable world of every configuration every node's worker-slot
   resource has the configured capacity (work_capacity) and never more users than that -- C08's
   "a machine holds at most work_capacity items at once", lifted through all process blocks with the
   same tactic as the kernel invariant in FactoryInv.v. *)
From Coq Require Import List ZArith Lia Bool Arith.
From RecordUpdate Require Import RecordUpdate.
From FV Require Import ListLemmas Kernel SrcFragments Lens World Factory.
From FV Require FactoryInv.
From FV Require StoreB.
Import ListNotations.
Open Scope Z_scope.

Definition NRok (nd : node) : Prop :=
  r_cap (nres nd) = nwcap nd /\ (length (r_users (nres nd)) <= nwcap nd)%nat.
Definition NI (w : world) : Prop := Forall NRok (wnodes w).

Lemma upd_forall {A} (P : A -> Prop) n f : forall l, Forall P l -> (forall x, nth_error l n = Some x -> P x -> P (f x)) -> Forall P (upd n f l).
Proof.
  induction n as [|n IH]; intros [|y l] H K; simpl; auto; inversion H; subst; constructor; auto.
Qed.

Create HintDb ndb.

Lemma NI_same w w' : wnodes w' = wnodes w -> NI w -> NI w'.
Proof. unfold NI. intros ->. auto. Qed.

(* the four Resource operations keep the capacity and the bound on the users *)
Definition ROK (c : nat) (r : res) : Prop := r_cap r = c /\ (length (r_users r) <= c)%nat.
Lemma res_trig_put_ok c k r k' r' : res_trig_put k r = Some (k', r') -> ROK c r -> ROK c r'.
Proof.
  unfold res_trig_put, ROK. destruct (r_putq r); [intros [= <- <-]; auto|].
  destruct (Nat.ltb_spec (length (r_users r)) (r_cap r)); [|intros [= <- <-]; auto].
  destruct (succeed k n); [|discriminate]. intros [= <- <-] (A & B). simpl. rewrite app_length; simpl. split; auto. lia.
Qed.
Lemma res_trig_get_ok c k r k' r' : res_trig_get k r = Some (k', r') -> ROK c r -> ROK c r'.
Proof.
  unfold res_trig_get, ROK. destruct (r_getq r) as [|[g q] rest]; [intros [= <- <-]; auto|].
  destruct (succeed k g); [|discriminate]. intros [= <- <-] (A & B). simpl. split; auto.
  pose proof (remove_first_len (Nat.eqb q) (r_users r)). lia.
Qed.
Lemma res_request_ok c k rid r k' r' q : res_request k rid r = Some (k', r', q) -> ROK c r -> ROK c r'.
Proof.
  unfold res_request. simpl. destruct (res_trig_put _ _) as [[k3 r3]|] eqn:E; [|discriminate].
  intros [= <- <- <-] H. eapply res_trig_put_ok; [exact E|]. exact H.
Qed.
Lemma res_release_ok c k rid r q k' r' g : res_release k rid r q = Some (k', r', g) -> ROK c r -> ROK c r'.
Proof.
  unfold res_release. simpl. destruct (res_trig_get _ _) as [[k3 r3]|] eqn:E; [|discriminate].
  intros [= <- <- <-] H. eapply res_trig_get_ok; [exact E|]. exact H.
Qed.



Lemma crashw_n w c : NI w -> NI (crashw w c).
Proof. unfold crashw. destruct (wcrash w); auto. Qed.
Lemma logw_n w x : NI w -> NI (logw w x).
Proof. auto. Qed.
Lemma upd_edge_n w e f : NI w -> NI (upd_edge w e f).
Proof. auto. Qed.
Lemma upd_node_n w n f : (forall x, NRok x -> NRok (f x)) -> NI w -> NI (upd_node w n f).
Proof. intros K H. unfold NI, upd_node. cbn [wnodes set]. simpl. apply upd_forall; auto. Qed.
Lemma upd_node_at w n f : (NRok (get_node w n) -> NRok (f (get_node w n))) -> NI w -> NI (upd_node w n f).
Proof.
  intros K H. unfold NI, upd_node. cbn [wnodes set]. simpl. apply upd_forall; auto.
  intros x E Hx. unfold get_node in K. rewrite (nth_error_nth _ _ node0 E) in K. auto.
Qed.
Lemma upd_proc_n w e f : NI w -> NI (upd_proc w e f).
Proof. auto. Qed.
Lemma upd_item_n w e f : NI w -> NI (upd_item w e f).
Proof. auto. Qed.
Lemma setpc_n w p pc : NI w -> NI (setpc w p pc).
Proof. auto. Qed.
#[local] Hint Resolve crashw_n logw_n upd_edge_n upd_proc_n upd_item_n setpc_n : ndb.
Ltac nrok_side :=
  let x := fresh in let Hx := fresh in intros x Hx;
  first [exact Hx
        | repeat (match goal with
                  | |- context [if ?b then _ else _] => destruct b
                  | |- context [match ?b with _ => _ end] => destruct b
                  end); exact Hx].
#[local] Hint Extern 3 (NI (upd_node _ _ _)) => (apply upd_node_n; [nrok_side|]) : ndb.

Lemma NI_get w n : NI w -> NRok (get_node w n).
Proof.
  unfold NI, get_node. intros H. destruct (nth_error (wnodes w) n) as [x|] eqn:E.
  - rewrite (nth_error_nth _ _ node0 E). eapply Forall_forall; [exact H|]. eapply nth_error_In; eauto.
  - rewrite nth_overflow; [|apply nth_error_None; exact E]. unfold NRok, node0; simpl. auto.
Qed.
(* replacing the resource of node n by the outcome of a Resource operation on it *)
Lemma set_res_n w n r : NI w -> ROK (nwcap (get_node w n)) r -> NI (upd_node w n (fun x => x <| nres := r |>)).
Proof. intros H (A & B). apply upd_node_at; auto. intros _. unfold NRok. cbn. auto. Qed.



Lemma w_succeed_n w e s : NI w -> NI (w_succeed w e s).
Proof.
  unfold w_succeed. intros H. destruct (succeed (wk w) e) eqn:E; [exact H|apply crashw_n; auto].
Qed.
#[local] Hint Resolve w_succeed_n : ndb.

Lemma w_succeed_all_n es : forall w, NI w -> NI (w_succeed_all w es).
Proof. unfold w_succeed_all. induction es as [|e es IH]; simpl; auto. intros w H. apply IH. auto with ndb. Qed.
#[local] Hint Resolve w_succeed_all_n : ndb.

Lemma w_event_n w w1 e : w_event w = (w1, e) -> NI w -> NI w1.
Proof. unfold w_event. simpl. intros [= <- _] H. exact H. Qed.


Lemma w_timeout_n w d w1 e : w_timeout w d = (w1, e) -> NI w -> NI w1.
Proof.
  unfold w_timeout. destruct (d <? 0).
  - intros [= <- _] H. auto with ndb.
  - destruct (timeout (wk w) d) as [k e0]. intros [= <- _] H. exact H.
Qed.




Lemma w_any_of_n w es w1 c : w_any_of w es = (w1, c) -> NI w -> NI w1.
Proof.
  unfold w_any_of. destruct (any_of (wk w) es) as [k e0]. intros [= <- _] H. exact H.
Qed.

Lemma spawn_n w p w1 pid d : spawn w p = (w1, pid, d) -> NI w -> NI w1.
Proof.
  unfold spawn. intros E H.
  destruct (w_event w) as [wa done] eqn:E1. destruct (w_event wa) as [wb ini] eqn:E2.
  inversion E; subst. clear E.
  assert (NI wb) as Hb by (eapply w_event_n; [exact E2|]; eapply w_event_n; [exact E1|]; exact H). exact Hb.
Qed.

Lemma e_update_level_n w e : NI w -> NI (e_update_level w e).
Proof. auto. Qed.
#[local] Hint Resolve e_update_level_n : ndb.

Lemma store_op_n w e o w1 r ts : store_op w e o = (w1, r, ts) -> NI w -> NI w1.
Proof. unfold store_op. destruct (StoreB.step _ _) as [[s' r0] ts0]. intros [= <- _ _] H. auto. Qed.

Lemma out_err_n w r s : NI w -> NI (out_err w r s).
Proof. unfold out_err. intros H. destruct r; auto. destruct e; auto with ndb. Qed.
#[local] Hint Resolve out_err_n : ndb.

Lemma e_reserve_put_n w e p w1 t : e_reserve_put w e p = (w1, t) -> NI w -> NI w1.
Proof.
  unfold e_reserve_put. intros E H.
  destruct (w_event w) as [wa ev] eqn:E1. destruct (store_op wa e (StoreB.Sync ev)) as [[wb r1] t1] eqn:E2.
  destruct (store_op wb e (StoreB.RPut p 0)) as [[wc r2] t2] eqn:E3. inversion E; subst.
  apply w_succeed_all_n. eapply store_op_n; [exact E3|]. eapply store_op_n; [exact E2|]. eapply w_event_n; eauto.
Qed.

Lemma e_reserve_get_n w e p w1 t : e_reserve_get w e p = (w1, t) -> NI w -> NI w1.
Proof.
  unfold e_reserve_get. intros E H.
  destruct (w_event w) as [wa ev] eqn:E1. destruct (store_op wa e (StoreB.Sync ev)) as [[wb r1] t1] eqn:E2.
  destruct (store_op wb e (StoreB.RGet p 0)) as [[wc r2] t2] eqn:E3. inversion E; subst.
  apply w_succeed_all_n. eapply store_op_n; [exact E3|]. eapply store_op_n; [exact E2|]. eapply w_event_n; eauto.
Qed.

Lemma e_cancel_put_n w e t : NI w -> NI (e_cancel_put w e t).
Proof.
  unfold e_cancel_put. intros H. destruct (store_op w e (StoreB.CPut t)) as [[w1 r] ts] eqn:E.
  apply w_succeed_all_n, out_err_n. eapply store_op_n; eauto.
Qed.
Lemma e_cancel_get_n w e t : NI w -> NI (e_cancel_get w e t).
Proof.
  unfold e_cancel_get. intros H. destruct (store_op w e (StoreB.CGet t)) as [[w1 r] ts] eqn:E.
  apply w_succeed_all_n, out_err_n. eapply store_op_n; eauto.
Qed.
#[local] Hint Resolve e_cancel_put_n e_cancel_get_n : ndb.

Lemma fleet_after_put_n w e : NI w -> NI (fleet_after_put w e).
Proof.
  unfold fleet_after_put. intros H. destruct (_ =? _)%nat; auto.
  destruct (e_trig _); auto with ndb.
Qed.
#[local] Hint Resolve fleet_after_put_n : ndb.

Lemma e_put_n w e p t i : NI w -> NI (e_put w e p t i).
Proof.
  unfold e_put. intros H. destruct (ek (get_edge w e)).
  - destruct (_ <? 0); [auto with ndb|].
    destruct (StoreB.step _ _) as [[s' r] ts]. destruct r; auto with ndb.
    destruct (spawn _ _) as [[w2 pid] d] eqn:E. apply logw_n, w_succeed_all_n.
    eapply spawn_n; [exact E|]. auto with ndb.
  - destruct (StoreB.step _ _) as [[s' r] ts]. destruct r; auto with ndb.
Qed.
#[local] Hint Resolve e_put_n : ndb.

Lemma e_get_n w e p t n w1 r : e_get w e p t n = (w1, r) -> NI w -> NI w1.
Proof.
  unfold e_get. intros E H. destruct (StoreB.step _ _) as [[s' r0] ts]. destruct r0 as [?| |?|e0]; try destruct e0; inversion E; subst; auto 10 with ndb.
Qed.

Lemma update_state_n w n s : NI w -> NI (update_state w n s).
Proof. unfold update_state. intros H. destruct (nlast _); auto with ndb. Qed.
#[local] Hint Resolve update_state_n : ndb.

Lemma draw_delay_n w n w1 d : draw_delay w n = (w1, d) -> NI w -> NI w1.
Proof. unfold draw_delay. intros [= <- _] H. auto with ndb. Qed.

Lemma draw_sel_n w n o w1 v : draw_sel w n o = (w1, v) -> NI w -> NI w1.
Proof.
  unfold draw_sel. intros E H. destruct (if o then noutsel _ else ninsel _); inversion E; subst; auto with ndb.
Qed.

Lemma cancel_others_n l : forall w keep (put : bool), NI w ->
  NI (fold_left (fun (w : world) (et : nat * nat) => let '(e, t) := et in
                             if Nat.eqb t keep then w else if put then e_cancel_put w e t else e_cancel_get w e t) l w).
Proof.
  induction l as [|[e t] l IH]; simpl; auto. intros w keep put H. apply IH.
  destruct (Nat.eqb t keep); auto. destruct put; auto with ndb.
Qed.
Lemma cancel_others_nn w es ts keep put : NI w -> NI (cancel_others w es ts keep put).
Proof. unfold cancel_others. apply cancel_others_n. Qed.
#[local] Hint Resolve cancel_others_nn : ndb.

Lemma reserve_all_n pid (put : bool) es : forall w l w1 l1,
  fold_left (fun (acc : world * list nat) (e : nat) => let '(w, l) := acc in
                          let '(w', t) := if put then e_reserve_put w e pid else e_reserve_get w e pid in (w', l ++ [t]))
            es (w, l) = (w1, l1) -> NI w -> NI w1.
Proof.
  induction es as [|e es IH]; simpl; intros w l w1 l1 E H.
  - inversion E; subst; auto.
  - destruct put.
    + destruct (e_reserve_put w e pid) as [w' t] eqn:E1. eapply IH; [exact E|]. eapply e_reserve_put_n; eauto.
    + destruct (e_reserve_get w e pid) as [w' t] eqn:E1. eapply IH; [exact E|]. eapply e_reserve_get_n; eauto.
Qed.
Lemma reserve_all_nn w pid es put w1 l1 : reserve_all w pid es put = (w1, l1) -> NI w -> NI w1.
Proof. unfold reserve_all. apply reserve_all_n. Qed.

Lemma set_creation_n w i n : NI w -> NI (set_creation w i n).
Proof. intros H. unfold set_creation. auto 8 with ndb. Qed.
Lemma update_state_rep_n w n : NI w -> NI (update_state_rep w n).
Proof.
  unfold update_state_rep. intros H. destruct (nlast _); auto with ndb.
  destruct (nsrep _). destruct (count_threads _). destruct (_ >? _); auto with ndb.
Qed.
Lemma occupancy_n w n a : NI w -> NI (occupancy w n a).
Proof. intros H. unfold occupancy. auto 8 with ndb. Qed.
Lemma set_thread_n w n p b : NI w -> NI (set_thread w n p b).
Proof. intros H. unfold set_thread. auto 8 with ndb. Qed.
Lemma add_blocked_time_n w p n : NI w -> NI (add_blocked_time w p n).
Proof. intros H. unfold add_blocked_time. auto 8 with ndb. Qed.
#[local] Hint Resolve set_creation_n update_state_rep_n occupancy_n set_thread_n add_blocked_time_n : ndb.

(* tactic: split every let / match / if of a block, derive NI of each intermediate world from the
   equation that introduced it *)
Ltac kstep :=
  match goal with
  | E : w_timeout ?w _ = (?w1, _) |- _ => assert (NI w1) by (eapply w_timeout_n; [exact E|auto 14 with ndb]); clear E
  | E : w_event ?w = (?w1, _) |- _ => assert (NI w1) by (eapply w_event_n; [exact E|auto 14 with ndb]); clear E
  | E : w_any_of ?w _ = (?w1, _) |- _ => assert (NI w1) by (eapply w_any_of_n; [exact E|auto 14 with ndb]); clear E
  | E : spawn ?w _ = (?w1, _, _) |- _ => assert (NI w1) by (eapply spawn_n; [exact E|auto 14 with ndb]); clear E
  | E : store_op ?w _ _ = (?w1, _, _) |- _ => assert (NI w1) by (eapply store_op_n; [exact E|auto 14 with ndb]); clear E
  | E : e_reserve_put ?w _ _ = (?w1, _) |- _ => assert (NI w1) by (eapply e_reserve_put_n; [exact E|auto 14 with ndb]); clear E
  | E : e_reserve_get ?w _ _ = (?w1, _) |- _ => assert (NI w1) by (eapply e_reserve_get_n; [exact E|auto 14 with ndb]); clear E
  | E : e_get ?w _ _ _ _ = (?w1, _) |- _ => assert (NI w1) by (eapply e_get_n; [exact E|auto 14 with ndb]); clear E
  | E : draw_delay ?w _ = (?w1, _) |- _ => assert (NI w1) by (eapply draw_delay_n; [exact E|auto 14 with ndb]); clear E
  | E : draw_sel ?w _ _ = (?w1, _) |- _ => assert (NI w1) by (eapply draw_sel_n; [exact E|auto 14 with ndb]); clear E
  | E : reserve_all ?w _ _ _ = (?w1, _) |- _ => assert (NI w1) by (eapply reserve_all_nn; [exact E|auto 14 with ndb]); clear E
  end.

Ltac ksplit :=
  repeat (match goal with
          | |- context [let '(_, _) := ?x in _] => destruct x as [? ?] eqn:?; try kstep
          | |- context [match ?x with _ => _ end] => destruct x eqn:?; try kstep
          end; simpl fst).

Ltac kauto := ksplit; simpl; auto 10 with ndb.

Ltac ksplit2 :=
  repeat (cbv zeta;
          match goal with
          | |- context [match ?x with _ => _ end] => destruct x eqn:?; repeat kstep; simpl fst
          end).
Ltac kgo := ksplit2; simpl; auto 12 with ndb.

Lemma source_loop_n w p n : NI w -> NI (fst (source_loop w p n)).
Proof. intros H. unfold source_loop. kgo. Qed.

Lemma spawn_push_n w n i e b : NI w -> NI (fst (spawn_push w n i e b)).
Proof. intros H. unfold spawn_push. kgo. Qed.

#[local] Hint Resolve source_loop_n spawn_push_n : ndb.

Lemma eqform {A} (f : world * A) w1 a : f = (w1, a) -> NI (fst f) -> NI w1.
Proof. intros ->. auto. Qed.

Ltac kstep2 :=
  match goal with
  | E : spawn_push ?w _ _ _ _ = (?w1, _) |- _ =>
      assert (NI w1) by (eapply eqform; [exact E|apply spawn_push_n; auto 14 with ndb]); clear E
  end.

Ltac ksplit3 :=
  repeat (cbv zeta;
          match goal with
          | |- context [match ?x with _ => _ end] => destruct x eqn:?; repeat (kstep || kstep2); cbn [fst snd]
          end).
#[local] Hint Extern 6 (NI (set _ _ _)) => (unfold NI; cbn [wnodes set]; progress simpl) : ndb.
Ltac kgo3 := ksplit3; cbn [fst snd]; auto 14 with ndb.

Lemma source_block_n w p : NI w -> NI (fst (source_block w p)).
Proof. intros H. unfold source_block. kgo3. Qed.

Lemma push_block_n w p : NI w -> NI (fst (push_block w p)).
Proof. intros H. unfold push_block. kgo3. Qed.

Lemma buftimer_block_n w p : NI w -> NI (fst (buftimer_block w p)).
Proof. intros H. unfold buftimer_block. kgo3. Qed.

Lemma sink_loop_n w p n : NI w -> NI (fst (sink_loop w p n)).
Proof. intros H. unfold sink_loop. kgo3. Qed.
#[local] Hint Resolve sink_loop_n : ndb.

Lemma sink_block_n w p : NI w -> NI (fst (sink_block w p)).
Proof. intros H. unfold sink_block. kgo3. Qed.


Lemma machine_request_n w p n : NI w -> NI (fst (machine_request w p n)).
Proof.
  intros H. unfold machine_request. cbv zeta.
  assert (NI (update_state_rep w n)) as H1 by auto with ndb.
  destruct (res_request (wk (update_state_rep w n)) n (nres (get_node (update_state_rep w n) n))) as [[[k r] q]|] eqn:E; cbn [fst].
  - apply setpc_n, upd_proc_n. apply (set_res_n (update_state_rep w n <| wk := k |>)); [exact H1|].
    eapply res_request_ok; [exact E|]. apply (NI_get _ n H1).
  - auto with ndb.
Qed.
#[local] Hint Resolve machine_request_n : ndb.

Lemma machine_start_worker_n w p n i : NI w -> NI (fst (machine_start_worker w p n i)).
Proof. intros H. unfold machine_start_worker. kgo3. Qed.
#[local] Hint Resolve machine_start_worker_n : ndb.

Lemma machine_block_n w p : NI w -> NI (fst (machine_block w p)).
Proof. intros H. unfold machine_block. kgo3. Qed.

Lemma worker_release_n w p n : NI w -> NI (fst (worker_release w p n)).
Proof.
  intros H. unfold worker_release. cbv zeta.
  destruct (res_release (wk w) n (nres (get_node w n)) (ptk (me w p))) as [[[k r] g]|] eqn:E; cbn [fst].
  - apply setpc_n. apply (set_res_n (w <| wk := k |>)); [exact H|].
    eapply res_release_ok; [exact E|]. apply (NI_get _ n H).
  - auto with ndb.
Qed.
#[local] Hint Resolve worker_release_n : ndb.

Lemma worker_block_n w p : NI w -> NI (fst (worker_block w p)).
Proof. intros H. unfold worker_block. kgo3. Qed.

Lemma fleet_loop_n w p e : NI w -> NI (fst (fleet_loop w p e)).
Proof. intros H. unfold fleet_loop. kgo3. Qed.
#[local] Hint Resolve fleet_loop_n : ndb.

Lemma fleetact_block_n w p : NI w -> NI (fst (fleetact_block w p)).
Proof.
  intros H. unfold fleetact_block. cbv zeta.
  destruct (ppc (me w p)); [apply fleet_loop_n; auto|].
  destruct (StoreB.transit _) eqn:ET; [apply fleet_loop_n; auto|].
  match goal with |- context [fleet_loop (if _ then _ else ?w1) _ _] => set (wb := w1) end.
  assert (NI wb) as H1.
  { subst wb. match goal with |- NI (match ?b with _ => _ end) => destruct b end; auto.
    all: try (destruct (spawn _ _) as [[w2 pid] d] eqn:E; eapply spawn_n; [exact E|]; auto with ndb). }
  clearbody wb.
  destruct (e_trig _).
  - destruct (w_event wb) as [w3 a] eqn:E2. apply fleet_loop_n, upd_edge_n. eapply w_event_n; eauto.
  - apply fleet_loop_n. exact H1.
Qed.

Lemma fleetmove_fold_n e l : forall w, NI w ->
  NI (fold_left (fun (w : world) (it : nat) =>
                    match wcrash w with
                    | Some _ => w
                    | None =>
                        let '(w1, r, ts) := store_op w e (StoreB.Ready it) in
                        let w2 := upd_edge w1 e (fun x => x <| eintransit ::= filter (fun t => negb (Nat.eqb t it)) |>) in
                        w_succeed_all (out_err w2 r 61) ts
                    end) l w).
Proof.
  induction l as [|x l IH]; simpl; auto. intros w H. apply IH.
  destruct (wcrash w); auto. destruct (store_op w e (StoreB.Ready x)) as [[w1 r] ts] eqn:E.
  apply w_succeed_all_n, out_err_n, upd_edge_n. eapply store_op_n; eauto.
Qed.

Lemma fleetmove_block_n w p : NI w -> NI (fst (fleetmove_block w p)).
Proof.
  intros H. unfold fleetmove_block. cbv zeta.
  destruct (ppc (me w p)) as [|[|?]]; cbn [fst].
  - destruct (plst (me w p)); cbn [fst]; auto. destruct (w_timeout _ _) as [w1 t] eqn:E. cbn [fst].
    apply setpc_n. eapply w_timeout_n; eauto.
  - destruct (w_timeout _ _) as [w1 t] eqn:E. cbn [fst]. apply setpc_n. eapply w_timeout_n; eauto.
  - apply fleetmove_fold_n. auto.
Qed.

Lemma check_state_n w n : NI w -> NI (check_state w n).
Proof. intros H. unfold check_state. destruct (count_threads _). kgo3. Qed.
#[local] Hint Resolve check_state_n : ndb.

Lemma sc_request_n w p n pc : NI w -> NI (fst (sc_request w p n pc)).
Proof.
  intros H. unfold sc_request.
  destruct (res_request (wk w) n (nres (get_node w n))) as [[[k r] q]|] eqn:E; cbn [fst].
  - apply setpc_n, upd_proc_n. apply (set_res_n (w <| wk := k |>)); [exact H|].
    eapply res_request_ok; [exact E|]. apply (NI_get _ n H).
  - auto with ndb.
Qed.
Lemma sc_release_n w p n : NI w -> NI (fst (sc_release w p n)).
Proof.
  intros H. unfold sc_release.
  destruct (res_release (wk w) n (nres (get_node w n)) (ptk (me w p))) as [[[k r] g]|] eqn:E; cbn [fst].
  - apply setpc_n. apply (set_res_n (w <| wk := k |>)); [exact H|].
    eapply res_release_ok; [exact E|]. apply (NI_get _ n H).
  - auto with ndb.
Qed.
#[local] Hint Resolve sc_request_n sc_release_n : ndb.

Lemma sc_dispatch_n w p n c ph : NI w -> NI (fst (sc_dispatch w p n c ph)).
Proof. intros H. unfold sc_dispatch. kgo3. Qed.
#[local] Hint Resolve sc_dispatch_n : ndb.

Lemma sc_next_n w p n : NI w -> NI (fst (sc_next w p n)).
Proof. intros H. unfold sc_next. kgo3. Qed.
#[local] Hint Resolve sc_next_n : ndb.

Lemma sc_worker_cont_n w p n : NI w -> NI (fst (sc_worker_cont w p n)).
Proof. intros H. unfold sc_worker_cont. kgo3. Qed.
#[local] Hint Resolve sc_worker_cont_n : ndb.

Lemma sc_run_n f : forall w p n r, NI (fst r) -> NI (fst (sc_run f w p n r)).
Proof.
  induction f as [|f IH]; simpl; intros w p n r H; auto with ndb.
  destruct r as [w1 y]. cbn [fst] in *. destruct (wcrash w1); auto.
  destruct (Nat.eqb _ 8); auto. apply IH. auto with ndb.
Qed.

Lemma splitworker_block_n w p : NI w -> NI (fst (splitworker_block w p)).
Proof.
  intros H. unfold splitworker_block. cbv zeta. destruct (ppc (me w p)) as [|[|?]].
  - kgo3.
  - match goal with |- context [if ?b then _ else _] => destruct b end; cbn [fst]; auto with ndb.
    apply sc_run_n. auto 12 with ndb.
  - apply sc_run_n. auto with ndb.
Qed.

Lemma combworker_block_n w p : NI w -> NI (fst (combworker_block w p)).
Proof.
  intros H. unfold combworker_block. cbv zeta. destruct (ppc (me w p)); apply sc_run_n; auto with ndb.
Qed.

Lemma splitter_head_n w p n : NI w -> NI (fst (splitter_head w p n)).
Proof. intros H. unfold splitter_head. kgo3. Qed.
#[local] Hint Resolve splitter_head_n : ndb.

Lemma splitter_start_n w p n pal : NI w -> NI (fst (splitter_start w p n pal)).
Proof. intros H. unfold splitter_start. kgo3. Qed.
#[local] Hint Resolve splitter_start_n : ndb.

Lemma splitter_block_n w p : NI w -> NI (fst (splitter_block w p)).
Proof. intros H. unfold splitter_block. kgo3. Qed.

Lemma combiner_head_n w p n : NI w -> NI (fst (combiner_head w p n)).
Proof. intros H. unfold combiner_head. kgo3. Qed.
#[local] Hint Resolve combiner_head_n : ndb.

Lemma combiner_rep_n e p k0 j : forall a, NI (fst (fst a)) -> NI (fst (fst (comb_rep e p k0 j a))).
Proof.
  induction j as [|j IH]; intros [[w0 ts] ix] H; simpl; auto.
  destruct (e_reserve_get w0 e p) as [w1 t] eqn:E. apply IH. cbn [fst]. eapply e_reserve_get_n; eauto.
Qed.

Lemma combiner_go_n rc p es : forall k acc r, NI (fst (fst acc)) -> comb_go rc p k es acc = Some r -> NI (fst (fst r)).
Proof.
  induction es as [|e es IH]; simpl; intros k acc r HA EQ.
  - inversion EQ; subst; auto.
  - destruct (nth_error rc k) as [q|]; [|discriminate]. eapply IH; [|exact EQ]. apply combiner_rep_n. exact HA.
Qed.

Lemma combiner_reserve_n w p n w1 a b : combiner_reserve w p n = Some (w1, a, b) -> NI w -> NI w1.
Proof.
  unfold combiner_reserve. intros E H.
  assert (NI (fst (fst (w1, a, b)))) as K by (eapply combiner_go_n; [|exact E]; cbn [fst]; exact H). exact K.
Qed.

Lemma combiner_loop_n w p n : NI w -> NI (fst (combiner_loop w p n)).
Proof. intros H. unfold combiner_loop. kgo3. Qed.
#[local] Hint Resolve combiner_loop_n : ndb.

Lemma combiner_block_n w p : NI w -> NI (fst (combiner_block w p)).
Proof.
  intros H. unfold combiner_block. cbv zeta.
  destruct (ppc (me w p)) as [|[|[|[|[|[|?]]]]]].
  - kgo3.
  - auto with ndb.
  - destruct (e_get _ _ _ _ _) as [w1 it] eqn:E. assert (NI w1) by (eapply e_get_n; eauto).
    destruct it; cbn [fst]; auto. destruct (negb _); cbn [fst]; auto with ndb.
    destruct (combiner_reserve w1 p (pown (me w p))) as [[[w2 a] b]|] eqn:E2; cbn [fst]; auto with ndb.
    assert (NI w2) by (eapply combiner_reserve_n; eauto).
    destruct (w_any_of w2 a) as [w3 c] eqn:E3. cbn [fst]. apply setpc_n, upd_proc_n. eapply w_any_of_n; eauto.
  - auto with ndb.
  - kgo3.
  - kgo3.
  - kgo3.
Qed.

Lemma block_n w p : NI w -> NI (fst (block w p)).
Proof.
  intros H. unfold block. destruct (pkd (me w p)); cbn [fst]; auto with ndb;
    first [apply source_block_n | apply machine_block_n | apply worker_block_n | apply sink_block_n | apply push_block_n
          | apply buftimer_block_n | apply fleetact_block_n | apply fleetmove_block_n | apply splitter_block_n
          | apply splitworker_block_n | apply combiner_block_n | apply combworker_block_n]; auto.
Qed.

Lemma resume_n f : forall w p, NI w -> NI (resume f w p).
Proof.
  induction f as [|f IH]; simpl; intros w p H; auto with ndb.
  destruct (wcrash w); auto.
  pose proof (block_n (w <| wactive := p |>) p) as B.
  destruct (block (w <| wactive := p |>) p) as [w1 y]. cbn [fst] in B.
  assert (NI w1) as H1 by (apply B; exact H).
  destruct (wcrash w1); auto. destruct y.
  - destruct (e_proc _); [apply IH; exact H1|]. exact H1.
  - apply upd_proc_n. exact H1.
Qed.

Lemma run_cb_n w c : NI w -> NI (run_cb w c).
Proof.
  intros H. unfold run_cb. destruct (wcrash w); auto. destruct c.
  - destruct (_ <? _)%nat; [apply resume_n; auto|apply crashw_n; auto].
  - exact H.
  - destruct (res_trig_get _ _) as [[k0 r0]|] eqn:E; auto with ndb.
    apply (set_res_n (w <| wk := k0 |>)); [exact H|]. eapply res_trig_get_ok; [exact E|]. apply (NI_get _ _ H).
  - destruct (res_trig_put _ _) as [[k0 r0]|] eqn:E; auto with ndb.
    apply (set_res_n (w <| wk := k0 |>)); [exact H|]. eapply res_trig_put_ok; [exact E|]. apply (NI_get _ _ H).
  - exact H.
Qed.


Lemma run_cbs_n l : forall w, NI w -> NI (fold_left run_cb l w).
Proof. induction l as [|c l IH]; simpl; auto. intros w H. apply IH, run_cb_n, H. Qed.


(* one kernel step keeps every node's worker-slot resource within its capacity *)
Theorem fstep_n w w' : NI w -> fstep w = Some w' -> NI w'.
Proof.
  unfold fstep. intros H. destruct (wcrash w); [discriminate|].
  destruct (pop (wk w)) as [[[k e] cbs]|] eqn:E; [|discriminate]. intros [= <-].
  apply run_cbs_n. exact H.
Qed.

Lemma mk_step_n w c : NI w -> NI (mk_step w c).
Proof.
  intros H. unfold mk_step. destruct c as [b i]. destruct b.
  - cbv zeta. match goal with |- context [spawn ?a ?b] => destruct (spawn a b) as [[w' pid] d] eqn:E end.
    eapply spawn_n; eauto.
  - destruct (ek (get_edge w i)); auto;
      destruct (w_event w) as [w1 act] eqn:E1; cbv zeta;
      match goal with |- context [spawn ?a ?b] => destruct (spawn a b) as [[w' pid] d] eqn:E end;
      (eapply spawn_n; [exact E|]); assert (NI w1) as H1 by (eapply w_event_n; eauto); exact H1.
Qed.

Lemma mk_world_n nodes edges order : Forall NRok nodes -> NI (mk_world nodes edges order).
Proof.
  unfold mk_world. intros H0.
  assert (forall l w, NI w -> NI (fold_left mk_step l w)) as G.
  { induction l as [|c l IH]; simpl; auto. intros w H. apply IH, mk_step_n, H. }
  apply G. exact H0.
Qed.

(* C08 (capacity part), for every factory configuration whose nodes start with an idle worker-slot
   resource of capacity work_capacity, and every number of kernel steps: no node ever has more busy
   worker slots than its work_capacity *)
Theorem worker_slots_bounded_everywhere nodes edges order n :
  Forall NRok nodes ->
  forall i nd, nth_error (wnodes (FactoryInv.iter_fstep n (mk_world nodes edges order))) i = Some nd ->
    r_cap (nres nd) = nwcap nd /\ (length (r_users (nres nd)) <= nwcap nd)%nat.
Proof.
  intros H0.
  assert (forall m w, NI w -> NI (FactoryInv.iter_fstep m w)) as G.
  { induction m as [|m IH]; simpl; intros w H; auto. destruct (fstep w) as [w'|] eqn:E; auto.
    apply IH. eapply fstep_n; eauto. }
  intros i nd E. pose proof (G n _ (mk_world_n nodes edges order H0)) as K.
  unfold NI in K. eapply Forall_forall in K; [exact K|]. eapply nth_error_In; eauto.
Qed.

(* the initial resource the library creates: simpy.Resource(env, capacity = work_capacity) *)
Lemma fresh_node_ok nd : nres nd = res_init (nwcap nd) -> NRok nd.
Proof. intros E. unfold NRok. rewrite E. simpl. split; auto. lia. Qed.
