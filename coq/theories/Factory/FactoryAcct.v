(* Whole-factory invariant for C17 (state-time accounting): once a node has taken its first time stamp, the
   per-state totals keep pace with the stamp exactly -- at every later world of every run
       sum of the totals  -  last stamp   is the same constant,
   for a machine in each of its two documented state groups (SETUP + IDLE + ALL_ACTIVE_BLOCKED + ATLEAST_ONE_PROCESSING
   and SETUP + IDLE + ALL_ACTIVE_PROCESSING + ATLEAST_ONE_BLOCKED), and every total stays non-negative.  Every advance
   of the stamp is therefore charged to exactly one state (one state of each group), and finalisation at T, which
   charges T - stamp once more, makes the totals add up to T minus the time of the first stamp.
   The predicate fixes one node n0 of kind k0 and also says which processes may touch its accounts: a process owned
   by n0 has a kind that fits k0, and the behaviour process of a machine / splitter / combiner is past the program
   points that initialise the accounts.  Lifted through all process blocks with the tactic of FactoryInv.v; the blocks
   are stated for "the running process p0, of kind kd0, owned by node ow0". *)
From Coq Require Import List ZArith Lia Bool Arith.
From RecordUpdate Require Import RecordUpdate.
From FV Require Import ListLemmas Kernel SrcFragments Lens Accounting World Factory.
From FV Require FactoryInv FactoryStamp.
From FV Require StoreB.
Import ListNotations.
Open Scope Z_scope.

(* which accounting routine the processes of a kind call on their node *)
Definition compat (kd : pkind) (k : nkind) : Prop :=
  match kd with
  | KMachineB | KWorker => k = NMachine
  | KSourceB | KSinkB | KSplitterB | KSplitWorker | KCombinerB | KCombWorker => k <> NMachine
  | _ => True
  end.
Definition pcok (kd : pkind) (pc : nat) : Prop :=
  match kd with KMachineB => (2 <= pc)%nat | KSplitterB | KCombinerB => (1 <= pc)%nat | _ => True end.

Definition gA (ts : list Z) : Z := nth 0 ts 0 + nth 1 ts 0 + nth 3 ts 0 + nth 2 ts 0.
Definition gB (ts : list Z) : Z := nth 0 ts 0 + nth 1 ts 0 + nth 4 ts 0 + nth 5 ts 0.
Definition nonneg (ts : list Z) : Prop := Forall (fun x => 0 <= x) ts.

(* the five conditional additions of Machine.update_state_rep *)
Definition rep_add (p b el : Z) (ts : list Z) : list Z :=
  let add (k : nat) (c : bool) (ts : list Z) := if c then upd k (fun v => v + el) ts else ts in
  add 5%nat (c_oneblk p b) (add 4%nat (c_allproc p b) (add 2%nat (c_oneproc p b) (add 3%nat (c_allblk p b) (add 1%nat (c_idle p b) ts)))).

Arguments rep_add : simpl never.

Lemma update_state_rep_eq w n l p b :
  nlast (get_node w n) = Some l -> nsrep (get_node w n) = (p, b) ->
  update_state_rep w n =
  let '(np, nb) := count_threads (get_node w n) in
  let w1 := upd_node w n (fun x => x <| ntstate := rep_add p b (wnow w - l) (ntstate (get_node w n)) |> <| nsrep := (np, nb) |>
                                     <| nlast := Some (wnow w) |>) in
  if (np + nb >? Z.of_nat (nwcap (get_node w n))) then crashw w1 (CAssert 40) else w1.
Proof. intros E1 E2. unfold update_state_rep. rewrite E1, E2. reflexivity. Qed.

Lemma rep_add_groups p b el ts : 0 <= p -> 0 <= b -> (6 <= length ts)%nat ->
  gA (rep_add p b el ts) = gA ts + el /\ gB (rep_add p b el ts) = gB ts + el /\ length (rep_add p b el ts) = length ts /\
  (0 <= el -> nonneg ts -> nonneg (rep_add p b el ts)).
Proof.
  intros Hp Hb L.
  destruct ts as [|a0 [|a1 [|a2 [|a3 [|a4 [|a5 r]]]]]]; simpl in L; try lia.
  unfold rep_add, gA, gB, c_idle, c_allblk, c_oneproc, c_allproc, c_oneblk, nonneg.
  destruct (Z.eqb_spec p 0); destruct (Z.eqb_spec b 0); destruct (Z.gtb_spec b 0); destruct (Z.gtb_spec p 0); simpl; try lia;
    (repeat split; try lia; intros Hel HF;
     repeat match goal with H : Forall _ (_ :: _) |- _ => inversion H; clear H; subst end;
     repeat (constructor; try lia); assumption).
Qed.

Lemma upd_length {A} n (f : A -> A) l : length (upd n f l) = length l.
Proof. revert l. induction n as [|n IH]; intros [|x l]; simpl; auto. Qed.
Lemma nth_upd_same {A} n (f : A -> A) : forall l d, (n < length l)%nat -> nth n (upd n f l) d = f (nth n l d).
Proof. induction n as [|n IH]; intros [|x l] d H; simpl in *; try lia; auto. apply IH. lia. Qed.
Lemma nth_upd_other {A} n m (f : A -> A) : forall l d, n <> m -> nth m (upd n f l) d = nth m l d.
Proof. revert m. induction n as [|n IH]; intros [|m] [|x l] d H; simpl in *; try lia; auto; apply IH; lia. Qed.

Section AtTime.
Variables (T : Z) (n0 : nat) (k0 : nkind) (cA cB : Z).

(* the accounts of node n0 *)
Definition AN (nd : node) : Prop :=
  nk nd = k0 /\ (6 <= length (ntstate nd))%nat /\ (nstate nd < 6)%nat /\ nonneg (ntstate nd) /\
  exists l, nlast nd = Some l /\ l <= T /\
    match k0 with
    | NMachine => gA (ntstate nd) = l + cA /\ gB (ntstate nd) = l + cB /\ 0 <= fst (nsrep nd) /\ 0 <= snd (nsrep nd)
    | _ => sumz (ntstate nd) = l + cA
    end.
Definition Acct (w : world) : Prop := (n0 < length (wnodes w))%nat /\ AN (get_node w n0).
(* the processes owned by n0 *)
Definition PrOK (w : world) : Prop :=
  forall p, (p < length (wprocs w))%nat -> pown (get_proc w p) = n0 ->
    compat (pkd (get_proc w p)) k0 /\ pcok (pkd (get_proc w p)) (ppc (get_proc w p)).
Definition PW (w : world) : Prop := wnow w = T /\ Acct w /\ PrOK w.

Variables (p0 : nat) (kd0 : pkind) (ow0 : nat).
Definition QP (w : world) : Prop := (p0 < length (wprocs w))%nat /\ pkd (get_proc w p0) = kd0 /\ pown (get_proc w p0) = ow0.
Definition CN (w : world) : Prop := PW w /\ QP w.

Lemma pnow w : CN w -> wnow w = T.
Proof. intros ((A & _) & _). exact A. Qed.

Lemma same_c w w' : wnow w' = wnow w -> wnodes w' = wnodes w -> wprocs w' = wprocs w -> CN w -> CN w'.
Proof. unfold CN, PW, Acct, PrOK, QP, get_node, get_proc. intros -> -> ->. auto. Qed.
Lemma setk_c w k : now k = now (wk w) -> CN w -> CN (w <| wk := k |>).
Proof. intros E. apply same_c; auto. Qed.

(* node updates *)
Lemma upd_node_other w n f : n <> n0 -> CN w -> CN (upd_node w n f).
Proof.
  intros NE ((N & (L & A) & P) & Q). split; [|exact Q]. split; [exact N|]. split; [|exact P].
  unfold Acct, get_node, upd_node in *. cbn [wnodes set]. simpl. rewrite upd_length. split; [exact L|].
  rewrite nth_upd_other by exact NE. exact A.
Qed.
Lemma upd_node_keep w n f :
  (forall x, nk (f x) = nk x /\ ntstate (f x) = ntstate x /\ nstate (f x) = nstate x /\ nlast (f x) = nlast x /\ nsrep (f x) = nsrep x) ->
  CN w -> CN (upd_node w n f).
Proof.
  intros K H. destruct (Nat.eq_dec n n0) as [->|NE]; [|apply upd_node_other; auto].
  destruct H as ((N & (L & A) & P) & Q). split; [|exact Q]. split; [exact N|]. split; [|exact P].
  unfold Acct, get_node, upd_node in *. cbn [wnodes set]. simpl. rewrite upd_length. split; [exact L|].
  rewrite nth_upd_same by exact L. destruct (K (nth n0 (wnodes w) node0)) as (K1 & K2 & K3 & K4 & K5).
  unfold AN in *. rewrite K1, K2, K3, K4, K5. exact A.
Qed.
(* replacing the accounts of n0 by accounts that satisfy the predicate again *)
Lemma upd_node_acct w f : AN (f (get_node w n0)) -> CN w -> CN (upd_node w n0 f).
Proof.
  intros K ((N & (L & A) & P) & Q). split; [|exact Q]. split; [exact N|]. split; [|exact P].
  unfold Acct, get_node, upd_node in *. cbn [wnodes set]. simpl. rewrite upd_length. split; [exact L|].
  rewrite nth_upd_same by exact L. exact K.
Qed.
Lemma get_node_upd_same w f : (n0 < length (wnodes w))%nat -> get_node (upd_node w n0 f) n0 = f (get_node w n0).
Proof. intros L. unfold get_node, upd_node. cbn [wnodes set]. simpl. apply nth_upd_same. exact L. Qed.

Lemma upd_node_acct2 w f g : AN (g (f (get_node w n0))) -> CN w -> CN (upd_node (upd_node w n0 f) n0 g).
Proof.
  intros K ((N & (L & A) & P) & Q). split; [|exact Q]. split; [exact N|]. split; [|exact P].
  unfold Acct, get_node, upd_node in *. cbn [wnodes set]. simpl. rewrite !upd_length. split; [exact L|].
  rewrite nth_upd_same by (rewrite upd_length; exact L). rewrite nth_upd_same by exact L. exact K.
Qed.

(* Node.update_state on a node that is not a machine *)
Lemma update_state_c w n st : (n <> n0 \/ k0 <> NMachine) -> (n <> n0 \/ (st < 6)%nat) -> CN w -> CN (update_state w n st).
Proof.
  intros M S H. unfold update_state.
  destruct (Nat.eq_dec n n0) as [->|NE].
  2:{ destruct (nlast (get_node w n)); repeat apply upd_node_other; auto. }
  destruct M as [M|M]; [congruence|]. destruct S as [S|S]; [congruence|].
  pose proof H as ((N & (L & A) & P) & Q). destruct A as (A1 & A2 & A3 & A4 & l & A5 & A6 & A7).
  rewrite A5. rewrite N. apply upd_node_acct2; [|exact H].
  unfold AN. cbn. rewrite upd_length. split; [exact A1|]. split; [exact A2|]. split; [exact S|].
  split; [apply upd_nonneg; auto; lia|]. exists T. split; [reflexivity|]. split; [lia|].
  destruct k0; try congruence; rewrite sumz_upd by lia; lia.
Qed.
Lemma update_state_same_c w n : (n <> n0 \/ k0 <> NMachine) -> CN w -> CN (update_state w n (nstate (get_node w n))).
Proof.
  intros M H. apply update_state_c; auto. destruct (Nat.eq_dec n n0) as [->|NE]; [right|left; exact NE].
  destruct H as ((_ & (_ & A) & _) & _). destruct A as (_ & _ & A3 & _). exact A3.
Qed.

(* Machine.update_state_rep on a machine *)
Lemma update_state_rep_c w n : (n <> n0 \/ k0 = NMachine) -> CN w -> CN (update_state_rep w n).
Proof.
  intros M H.
  destruct (Nat.eq_dec n n0) as [->|NE].
  2:{ unfold update_state_rep. destruct (nlast (get_node w n)); [|apply upd_node_other; auto].
      destruct (nsrep _). destruct (count_threads _). destruct (_ >? _); [unfold crashw; destruct (wcrash _)|]; apply upd_node_other; auto. }
  destruct M as [M|M]; [congruence|].
  pose proof H as ((N & (L & A) & P) & Q). destruct A as (A1 & A2 & A3 & A4 & l & A5 & A6 & A7).
  destruct (nsrep (get_node w n0)) as [p b] eqn:ER. rewrite (update_state_rep_eq _ _ _ _ _ A5 ER). rewrite N.
  destruct (count_threads (get_node w n0)) as [np nb] eqn:EC.
  rewrite M in A7. destruct A7 as (GA & GB & Hp & Hb). simpl in Hp, Hb.
  destruct (rep_add_groups p b (T - l) (ntstate (get_node w n0)) Hp Hb A2) as (RA & RB & RL & RN).
  assert (0 <= np /\ 0 <= nb) as (Hnp & Hnb).
  { unfold count_threads in EC. inversion EC; subst. split; apply Zle_0_nat. }
  cbv zeta.
  match goal with |- CN (if _ then crashw ?x _ else _) => assert (CN x) as H1 end.
  { apply upd_node_acct; [|exact H]. unfold AN. cbn.
    rewrite RL. split; [exact A1|]. split; [exact A2|]. split; [exact A3|]. split; [apply RN; auto; lia|].
    exists T. split; [reflexivity|]. split; [lia|]. rewrite M. rewrite RA, RB. repeat split; lia. }
  destruct (_ >? _); [|exact H1]. unfold crashw. destruct (wcrash _); exact H1.
Qed.

(* process updates *)
Lemma get_proc_upd w p f q : get_proc (upd_proc w p f) q = if Nat.eqb p q && (q <? length (wprocs w))%nat then f (get_proc w q) else get_proc w q.
Proof.
  unfold get_proc, upd_proc. cbn [wprocs set]. simpl. destruct (Nat.eqb_spec p q) as [->|NE]; simpl.
  - destruct (Nat.ltb_spec q (length (wprocs w))).
    + apply nth_upd_same. assumption.
    + rewrite !nth_overflow; auto. rewrite upd_length. assumption.
  - apply nth_upd_other. exact NE.
Qed.
Lemma upd_proc_gen w p f :
  (forall x, pkd (f x) = pkd x /\ pown (f x) = pown x) ->
  ((p < length (wprocs w))%nat -> pown (get_proc w p) = n0 -> pcok (pkd (get_proc w p)) (ppc (f (get_proc w p)))) ->
  CN w -> CN (upd_proc w p f).
Proof.
  intros K C ((N & A & P) & (Q1 & Q2 & Q3)). split; [split; [exact N|split; [exact A|]]|].
  - intros q Lq. rewrite get_proc_upd. unfold upd_proc in Lq. cbn [wprocs set] in Lq. simpl in Lq. rewrite upd_length in Lq.
    destruct (Nat.eqb_spec p q) as [->|NE]; simpl; [|apply P; exact Lq].
    destruct (Nat.ltb_spec q (length (wprocs w))); [|apply P; exact Lq].
    destruct (K (get_proc w q)) as (K1 & K2). rewrite K1, K2. intros O. split; [apply P; auto|apply C; auto].
  - unfold QP. rewrite get_proc_upd. unfold upd_proc. cbn [wprocs set]. simpl. rewrite upd_length. split; [exact Q1|].
    destruct (Nat.eqb p p0 && (p0 <? length (wprocs w))%nat); auto. destruct (K (get_proc w p0)) as (K1 & K2). rewrite K1, K2. auto.
Qed.
Lemma upd_proc_keep w p f :
  (forall x, pkd (f x) = pkd x /\ pown (f x) = pown x /\ ppc (f x) = ppc x) -> CN w -> CN (upd_proc w p f).
Proof.
  intros K H. apply upd_proc_gen; auto.
  - intros x. destruct (K x) as (A & B & _). auto.
  - intros L O. destruct (K (get_proc w p)) as (_ & _ & C). rewrite C. destruct H as ((_ & _ & P) & _). apply P; auto.
Qed.
Lemma setpc_c w pc : (ow0 = n0 -> pcok kd0 pc) -> CN w -> CN (setpc w p0 pc).
Proof.
  intros C H. unfold setpc. apply upd_proc_gen; auto.
  intros L O. cbn. destruct H as (_ & (_ & Q2 & Q3)). rewrite Q2. apply C. congruence.
Qed.

Create HintDb cdb.

Lemma crashw_c w c : CN w -> CN (crashw w c).
Proof. unfold crashw. destruct (wcrash w); auto. Qed.
Lemma logw_c w x : CN w -> CN (logw w x).
Proof. auto. Qed.
Lemma upd_edge_c w e f : CN w -> CN (upd_edge w e f).
Proof. auto. Qed.
Lemma upd_item_c w e f : CN w -> CN (upd_item w e f).
Proof. auto. Qed.
#[local] Hint Resolve crashw_c logw_c upd_edge_c upd_item_c : cdb.
Ltac cn_side :=
  let x := fresh in intros x;
  first [repeat split; reflexivity
        | repeat (match goal with
                  | |- context [if ?b then _ else _] => destruct b
                  | |- context [match ?b with _ => _ end] => destruct b
                  end); repeat split; reflexivity].
(* side conditions "the running process is not owned by n0, or ..." come from the hypotheses of the block lemma *)
Ltac mode := first [assumption | left; assumption | right; assumption | left; congruence | right; congruence
                   | right; unfold ST_SETUP, ST_GEN, ST_BLOCKED; lia].
Ltac pc_side :=
  let E := fresh in intros E;
  first [exact I | (simpl; lia) | contradiction
        | match goal with H : ow0 = n0 -> _ |- _ => specialize (H E); simpl in H |- *; first [lia | exact I] end].
#[local] Hint Extern 3 (CN (upd_node _ _ _)) => first [apply upd_node_keep; [cn_side|] | apply upd_node_other; [assumption|]] : cdb.
#[local] Hint Extern 3 (CN (upd_proc _ _ _)) => (apply upd_proc_keep; [cn_side|]) : cdb.
#[local] Hint Extern 3 (CN (setpc _ _ _)) => (apply setpc_c; [pc_side|]) : cdb.
#[local] Hint Extern 2 (CN (update_state ?w ?n (nstate (get_node ?w ?n)))) => (apply update_state_same_c; [mode|]) : cdb.
#[local] Hint Extern 3 (CN (update_state _ _ _)) => (apply update_state_c; [mode|mode|]) : cdb.
#[local] Hint Extern 3 (CN (update_state_rep _ _)) => (apply update_state_rep_c; [mode|]) : cdb.
#[local] Hint Extern 4 (CN (set witems _ _)) => (eapply same_c; [| | |]; [reflexivity|reflexivity|reflexivity|]) : cdb.

Lemma w_succeed_c w e s : CN w -> CN (w_succeed w e s).
Proof.
  unfold w_succeed. intros H. destruct (succeed (wk w) e) eqn:E; [|apply crashw_c; auto].
  apply setk_c; auto. eapply FactoryStamp.now_succeed; eauto.
Qed.
#[local] Hint Resolve w_succeed_c : cdb.

Lemma w_succeed_all_c es : forall w, CN w -> CN (w_succeed_all w es).
Proof. unfold w_succeed_all. induction es as [|e es IH]; simpl; auto. intros w H. apply IH. auto with cdb. Qed.
#[local] Hint Resolve w_succeed_all_c : cdb.

Lemma w_event_c w w1 e : w_event w = (w1, e) -> CN w -> CN w1.
Proof. unfold w_event. simpl. intros [= <- _] H. apply setk_c; auto. Qed.

Lemma w_timeout_c w d w1 e : w_timeout w d = (w1, e) -> CN w -> CN w1.
Proof.
  unfold w_timeout. destruct (d <? 0).
  - intros [= <- _] H. auto with cdb.
  - destruct (timeout (wk w) d) as [k e0] eqn:E. intros [= <- _] H. apply setk_c; auto.
    apply (f_equal fst) in E. simpl in E. subst k. reflexivity.
Qed.

Lemma w_any_of_c w es w1 c : w_any_of w es = (w1, c) -> CN w -> CN w1.
Proof.
  unfold w_any_of. destruct (any_of (wk w) es) as [k e0] eqn:E. intros [= <- _] H. apply setk_c; auto.
  apply (f_equal fst) in E. simpl in E. subst k. apply FactoryStamp.now_any_of.
Qed.

(* env.process(...): the new process must fit the node it is owned by *)
Lemma spawn_c w pr w1 pid d :
  spawn w pr = (w1, pid, d) -> (pown pr = n0 -> compat (pkd pr) k0 /\ pcok (pkd pr) (ppc pr)) -> CN w -> CN w1.
Proof.
  unfold spawn. intros E C H.
  destruct (w_event w) as [wa done] eqn:E1. destruct (w_event wa) as [wb ini] eqn:E2.
  inversion E; subst. clear E.
  assert (CN wb) as Hb by (eapply w_event_c; [exact E2|]; eapply w_event_c; [exact E1|]; exact H).
  destruct Hb as ((N & A & P) & (Q1 & Q2 & Q3)).
  match goal with |- CN ?x => set (wz := x) end.
  assert (G : forall q, (q < length (wprocs wb))%nat -> get_proc wz q = get_proc wb q).
  { intros q Lq. subst wz. unfold get_proc. cbn [wprocs set]. simpl. apply app_nth1. exact Lq. }
  assert (GL : length (wprocs wz) = S (length (wprocs wb))).
  { subst wz. cbn [wprocs set]. simpl. rewrite app_length. simpl. lia. }
  assert (GN : pkd (get_proc wz (length (wprocs wb))) = pkd pr /\ pown (get_proc wz (length (wprocs wb))) = pown pr /\
               ppc (get_proc wz (length (wprocs wb))) = ppc pr).
  { subst wz. unfold get_proc. cbn [wprocs set]. simpl. rewrite app_nth2 by lia. rewrite Nat.sub_diag. simpl. auto. }
  assert (GA : wnow wz = wnow wb /\ wnodes wz = wnodes wb) by (subst wz; split; reflexivity).
  clearbody wz. destruct GA as (GA1 & GA2). destruct GN as (GN1 & GN2 & GN3).
  split; [split; [rewrite GA1; exact N|split]|].
  - unfold Acct, get_node in *. rewrite GA2. exact A.
  - intros q Lq. rewrite GL in Lq.
    destruct (Nat.eq_dec q (length (wprocs wb))) as [->|NE].
    + rewrite GN1, GN2, GN3. exact C.
    + rewrite G by lia. apply P. lia.
  - unfold QP. rewrite G by exact Q1. rewrite GL. split; [lia|]. auto.
Qed.

Lemma e_update_level_c w e : CN w -> CN (e_update_level w e).
Proof. auto. Qed.
#[local] Hint Resolve e_update_level_c : cdb.
Lemma store_op_c w e o w1 r ts : store_op w e o = (w1, r, ts) -> CN w -> CN w1.
Proof. unfold store_op. destruct (StoreB.step _ _) as [[s' r0] ts0]. intros [= <- _ _] H. auto. Qed.

Lemma out_err_c w r s : CN w -> CN (out_err w r s).
Proof. unfold out_err. intros H. destruct r; auto. destruct e; auto with cdb. Qed.
#[local] Hint Resolve out_err_c : cdb.

Lemma e_reserve_put_c w e p w1 t : e_reserve_put w e p = (w1, t) -> CN w -> CN w1.
Proof.
  unfold e_reserve_put. intros E H.
  destruct (w_event w) as [wa ev] eqn:E1. destruct (store_op wa e (StoreB.Sync ev)) as [[wb r1] t1] eqn:E2.
  destruct (store_op wb e (StoreB.RPut p 0)) as [[wc r2] t2] eqn:E3. inversion E; subst.
  apply w_succeed_all_c. eapply store_op_c; [exact E3|]. eapply store_op_c; [exact E2|]. eapply w_event_c; eauto.
Qed.

Lemma e_reserve_get_c w e p w1 t : e_reserve_get w e p = (w1, t) -> CN w -> CN w1.
Proof.
  unfold e_reserve_get. intros E H.
  destruct (w_event w) as [wa ev] eqn:E1. destruct (store_op wa e (StoreB.Sync ev)) as [[wb r1] t1] eqn:E2.
  destruct (store_op wb e (StoreB.RGet p 0)) as [[wc r2] t2] eqn:E3. inversion E; subst.
  apply w_succeed_all_c. eapply store_op_c; [exact E3|]. eapply store_op_c; [exact E2|]. eapply w_event_c; eauto.
Qed.

Lemma e_cancel_put_c w e t : CN w -> CN (e_cancel_put w e t).
Proof.
  unfold e_cancel_put. intros H. destruct (store_op w e (StoreB.CPut t)) as [[w1 r] ts] eqn:E.
  apply w_succeed_all_c, out_err_c. eapply store_op_c; eauto.
Qed.
Lemma e_cancel_get_c w e t : CN w -> CN (e_cancel_get w e t).
Proof.
  unfold e_cancel_get. intros H. destruct (store_op w e (StoreB.CGet t)) as [[w1 r] ts] eqn:E.
  apply w_succeed_all_c, out_err_c. eapply store_op_c; eauto.
Qed.
#[local] Hint Resolve e_cancel_put_c e_cancel_get_c : cdb.

Lemma fleet_after_put_c w e : CN w -> CN (fleet_after_put w e).
Proof.
  unfold fleet_after_put. intros H. destruct (_ =? _)%nat; auto.
  destruct (e_trig _); auto with cdb.
Qed.
#[local] Hint Resolve fleet_after_put_c : cdb.

Lemma e_put_c w e p t i : CN w -> CN (e_put w e p t i).
Proof.
  unfold e_put. intros H. destruct (ek (get_edge w e)).
  - destruct (_ <? 0); [auto with cdb|].
    destruct (StoreB.step _ _) as [[s' r] ts]. destruct r; auto with cdb.
    destruct (spawn _ _) as [[w2 pid] d] eqn:E. apply logw_c. apply w_succeed_all_c.
    eapply spawn_c; [exact E|cbn; intros _; split; exact I|]. auto with cdb.
  - destruct (StoreB.step _ _) as [[s' r] ts]. destruct r; auto with cdb.
Qed.
#[local] Hint Resolve e_put_c : cdb.

Lemma e_get_c w e p t n w1 r : e_get w e p t n = (w1, r) -> CN w -> CN w1.
Proof.
  unfold e_get. intros E H. destruct (StoreB.step _ _) as [[s' r0] ts]. destruct r0 as [?| |?|e0]; try destruct e0; inversion E; subst; auto 10 with cdb.
Qed.


Lemma draw_delay_c w n w1 d : draw_delay w n = (w1, d) -> CN w -> CN w1.
Proof. unfold draw_delay. intros [= <- _] H. auto with cdb. Qed.

Lemma draw_sel_c w n o w1 v : draw_sel w n o = (w1, v) -> CN w -> CN w1.
Proof.
  unfold draw_sel. intros E H. destruct (if o then noutsel _ else ninsel _); inversion E; subst; auto with cdb.
Qed.

Lemma cancel_others_c l : forall w keep (put : bool), CN w ->
  CN (fold_left (fun (w : world) (et : nat * nat) => let '(e, t) := et in
                             if Nat.eqb t keep then w else if put then e_cancel_put w e t else e_cancel_get w e t) l w).
Proof.
  induction l as [|[e t] l IH]; simpl; auto. intros w keep put H. apply IH.
  destruct (Nat.eqb t keep); auto. destruct put; auto with cdb.
Qed.
Lemma cancel_others_cc w es ts keep put : CN w -> CN (cancel_others w es ts keep put).
Proof. unfold cancel_others. apply cancel_others_c. Qed.
#[local] Hint Resolve cancel_others_cc : cdb.

Lemma reserve_all_c pid (put : bool) es : forall w l w1 l1,
  fold_left (fun (acc : world * list nat) (e : nat) => let '(w, l) := acc in
                          let '(w', t) := if put then e_reserve_put w e pid else e_reserve_get w e pid in (w', l ++ [t]))
            es (w, l) = (w1, l1) -> CN w -> CN w1.
Proof.
  induction es as [|e es IH]; simpl; intros w l w1 l1 E H.
  - inversion E; subst; auto.
  - destruct put.
    + destruct (e_reserve_put w e pid) as [w' t] eqn:E1. eapply IH; [exact E|]. eapply e_reserve_put_c; eauto.
    + destruct (e_reserve_get w e pid) as [w' t] eqn:E1. eapply IH; [exact E|]. eapply e_reserve_get_c; eauto.
Qed.
Lemma reserve_all_cc w pid es put w1 l1 : reserve_all w pid es put = (w1, l1) -> CN w -> CN w1.
Proof. unfold reserve_all. apply reserve_all_c. Qed.

Lemma set_creation_c w i n : CN w -> CN (set_creation w i n).
Proof. intros H. unfold set_creation. auto with cdb. Qed.
Lemma occupancy_c w n a : CN w -> CN (occupancy w n a).
Proof. intros H. unfold occupancy. auto 8 with cdb. Qed.
Lemma set_thread_c w n p b : CN w -> CN (set_thread w n p b).
Proof. intros H. unfold set_thread. auto 8 with cdb. Qed.
Lemma add_blocked_time_c w p n : CN w -> CN (add_blocked_time w p n).
Proof. intros H. unfold add_blocked_time. auto 8 with cdb. Qed.
#[local] Hint Resolve set_creation_c occupancy_c set_thread_c add_blocked_time_c : cdb.

(* the new process fits its owner: by computation, or from the hypothesis about the running process's owner *)
Ltac spawn_side :=
  let E := fresh in cbn; intros E; split;
  [first [exact I | match goal with H : _ \/ _ |- _ => destruct H as [H|H]; [contradiction|exact H] end]
  |first [exact I | (simpl; lia)]].

(* tactic: split every let / match / if of a block, derive CN of each intermediate world from the
   equation that introduced it *)
Ltac kstep :=
  match goal with
  | E : w_timeout ?w _ = (?w1, _) |- _ => assert (CN w1) by (eapply w_timeout_c; [exact E|auto 14 with cdb]); clear E
  | E : w_event ?w = (?w1, _) |- _ => assert (CN w1) by (eapply w_event_c; [exact E|auto 14 with cdb]); clear E
  | E : w_any_of ?w _ = (?w1, _) |- _ => assert (CN w1) by (eapply w_any_of_c; [exact E|auto 14 with cdb]); clear E
  | E : spawn ?w _ = (?w1, _, _) |- _ => assert (CN w1) by (eapply spawn_c; [exact E|spawn_side|auto 14 with cdb]); clear E
  | E : store_op ?w _ _ = (?w1, _, _) |- _ => assert (CN w1) by (eapply store_op_c; [exact E|auto 14 with cdb]); clear E
  | E : e_reserve_put ?w _ _ = (?w1, _) |- _ => assert (CN w1) by (eapply e_reserve_put_c; [exact E|auto 14 with cdb]); clear E
  | E : e_reserve_get ?w _ _ = (?w1, _) |- _ => assert (CN w1) by (eapply e_reserve_get_c; [exact E|auto 14 with cdb]); clear E
  | E : e_get ?w _ _ _ _ = (?w1, _) |- _ => assert (CN w1) by (eapply e_get_c; [exact E|auto 14 with cdb]); clear E
  | E : draw_delay ?w _ = (?w1, _) |- _ => assert (CN w1) by (eapply draw_delay_c; [exact E|auto 14 with cdb]); clear E
  | E : draw_sel ?w _ _ = (?w1, _) |- _ => assert (CN w1) by (eapply draw_sel_c; [exact E|auto 14 with cdb]); clear E
  | E : reserve_all ?w _ _ _ = (?w1, _) |- _ => assert (CN w1) by (eapply reserve_all_cc; [exact E|auto 14 with cdb]); clear E
  end.

Ltac ksplit :=
  repeat (match goal with
          | |- context [let '(_, _) := ?x in _] => destruct x as [? ?] eqn:?; try kstep
          | |- context [match ?x with _ => _ end] => destruct x eqn:?; try kstep
          end; simpl fst).

Ltac kauto := ksplit; simpl; auto 10 with cdb.

Ltac ksplit2 :=
  repeat (cbv zeta;
          match goal with
          | |- context [match ?x with _ => _ end] => destruct x eqn:?; repeat kstep; simpl fst
          end).
Ltac kgo := ksplit2; simpl; auto 12 with cdb.

Notation NodeMode := (ow0 <> n0 \/ k0 <> NMachine).
Notation MachMode := (ow0 <> n0 \/ k0 = NMachine).
Notation freepc := (forall pc : nat, pcok kd0 pc).

(* expose the owner of the running process as ow0 in the unfolded block *)
Ltac own H := let Q := fresh "QO" in pose proof H as (_ & (_ & _ & Q)); cbv zeta; unfold me; rewrite ?Q.
Ltac pc_side ::=
  let E := fresh in intros E;
  first [exact I
        | match goal with F : forall pc : nat, pcok kd0 pc |- _ => apply F end
        | match goal with HK : kd0 = _ |- _ => rewrite HK; simpl; first [exact I | lia] end
        | contradiction
        | match goal with H : ow0 = n0 -> _ |- _ => specialize (H E); exfalso; revert H;
            repeat match goal with HK : kd0 = _ |- _ => rewrite HK end;
            repeat match goal with EQ : ppc _ = _ |- _ => rewrite EQ end; simpl; lia end].

Lemma source_loop_c w : freepc -> NodeMode -> CN w -> CN (fst (source_loop w p0 ow0)).
Proof. intros F M H. unfold source_loop. kgo. Qed.

Lemma spawn_push_c w n i e b : CN w -> CN (fst (spawn_push w n i e b)).
Proof. intros H. unfold spawn_push. kgo. Qed.

#[local] Hint Resolve source_loop_c spawn_push_c : cdb.

Lemma eqform {A} (f : world * A) w1 a : f = (w1, a) -> CN (fst f) -> CN w1.
Proof. intros ->. auto. Qed.

Ltac kstep2 :=
  match goal with
  | E : spawn_push ?w _ _ _ _ = (?w1, _) |- _ =>
      assert (CN w1) by (eapply eqform; [exact E|apply spawn_push_c; auto 14 with cdb]); clear E
  end.

Ltac ksplit3 :=
  repeat (cbv zeta;
          match goal with
          | |- context [match ?x with _ => _ end] => destruct x eqn:?; repeat (kstep || kstep2); cbn [fst snd]
          end).
Ltac kgo3 := ksplit3; cbn [fst snd]; auto 14 with cdb.

Lemma source_block_c w : freepc -> NodeMode -> CN w -> CN (fst (source_block w p0)).
Proof. intros F M H. unfold source_block. own H. kgo3. Qed.

Lemma push_block_c w : freepc -> CN w -> CN (fst (push_block w p0)).
Proof. intros F H. unfold push_block. own H. kgo3. Qed.

Lemma buftimer_block_c w : freepc -> CN w -> CN (fst (buftimer_block w p0)).
Proof. intros F H. unfold buftimer_block. own H. kgo3. Qed.

Lemma sink_loop_c w : freepc -> NodeMode -> CN w -> CN (fst (sink_loop w p0 ow0)).
Proof. intros F M H. unfold sink_loop. kgo3. Qed.
#[local] Hint Resolve sink_loop_c : cdb.

Lemma sink_block_c w : freepc -> NodeMode -> CN w -> CN (fst (sink_block w p0)).
Proof. intros F M H. unfold sink_block. own H. kgo3. Qed.

Lemma machine_request_c w : kd0 = KMachineB -> MachMode -> CN w -> CN (fst (machine_request w p0 ow0)).
Proof.
  intros HK M H. unfold machine_request. cbv zeta.
  assert (CN (update_state_rep w ow0)) as H1 by auto with cdb.
  destruct (res_request (wk (update_state_rep w ow0)) ow0 (nres (get_node (update_state_rep w ow0) ow0))) as [[[k r] q]|] eqn:E; cbn [fst].
  - apply setpc_c; [pc_side|]. apply upd_proc_keep; [cn_side|]. apply upd_node_keep; [cn_side|]. apply setk_c; [|exact H1].
    eapply FactoryStamp.now_res_request; eauto.
  - auto with cdb.
Qed.
#[local] Hint Resolve machine_request_c : cdb.

Lemma machine_start_worker_c w i : kd0 = KMachineB -> MachMode -> CN w -> CN (fst (machine_start_worker w p0 ow0 i)).
Proof. intros HK M H. unfold machine_start_worker. kgo3. Qed.
#[local] Hint Resolve machine_start_worker_c : cdb.

(* the program points of a behaviour process that initialise the accounts are behind the process owned by n0 *)
Lemma pc_fact w : CN w -> ow0 = n0 -> pcok kd0 (ppc (get_proc w p0)).
Proof. intros ((_ & _ & P) & (Q1 & Q2 & Q3)) E. rewrite <- Q2. apply P; [exact Q1|congruence]. Qed.

Lemma machine_block_c w : kd0 = KMachineB -> MachMode -> CN w -> CN (fst (machine_block w p0)).
Proof.
  intros HK M H. pose proof (pc_fact w H) as HP0. unfold machine_block. own H.
  destruct (ppc (get_proc w p0)) as [|[|pc]] eqn:EP.
  - assert (NE : ow0 <> n0) by (intros EQ; specialize (HP0 EQ); rewrite HK, ?EP in HP0; simpl in HP0; lia). kgo3.
  - assert (NE : ow0 <> n0) by (intros EQ; specialize (HP0 EQ); rewrite HK, ?EP in HP0; simpl in HP0; lia). kgo3.
  - kgo3.
Qed.

Lemma worker_release_c w : freepc -> CN w -> CN (fst (worker_release w p0 ow0)).
Proof.
  intros F H. unfold worker_release. cbv zeta.
  destruct (res_release (wk w) ow0 (nres (get_node w ow0)) (ptk (me w p0))) as [[[k r] g]|] eqn:E; cbn [fst].
  - apply setpc_c; [pc_side|]. apply upd_node_keep; [cn_side|]. apply setk_c; [|exact H]. eapply FactoryStamp.now_res_release; eauto.
  - auto with cdb.
Qed.
#[local] Hint Resolve worker_release_c : cdb.

Lemma worker_block_c w : freepc -> MachMode -> CN w -> CN (fst (worker_block w p0)).
Proof. intros F M H. unfold worker_block. own H. kgo3. Qed.

Lemma fleet_loop_c w e : freepc -> CN w -> CN (fst (fleet_loop w p0 e)).
Proof. intros F H. unfold fleet_loop. kgo3. Qed.
#[local] Hint Resolve fleet_loop_c : cdb.

Lemma fleetact_block_c w : freepc -> CN w -> CN (fst (fleetact_block w p0)).
Proof.
  intros F H. unfold fleetact_block. own H.
  destruct (ppc (get_proc w p0)); [apply fleet_loop_c; auto|].
  destruct (StoreB.transit _) eqn:ET; [apply fleet_loop_c; auto|].
  match goal with |- context [fleet_loop (if _ then _ else ?w1) _ _] => set (wb := w1) end.
  assert (CN wb) as H1.
  { subst wb. match goal with |- CN (match ?b with _ => _ end) => destruct b end; auto.
    all: try (destruct (spawn _ _) as [[w2 pid] d] eqn:E; eapply spawn_c; [exact E|cbn; intros _; split; exact I|]; auto with cdb). }
  clearbody wb.
  destruct (e_trig _).
  - destruct (w_event wb) as [w3 a] eqn:E2. apply fleet_loop_c; [exact F|]. apply upd_edge_c. eapply w_event_c; eauto.
  - apply fleet_loop_c; [exact F|]. exact H1.
Qed.

Lemma fleetmove_fold_c e l : forall w, CN w ->
  CN (fold_left (fun (w : world) (it : nat) =>
                    match wcrash w with
                    | Some _ => w
                    | None =>
                        let '(w1, r, ts) := store_op w e (StoreB.Ready it) in
                        let w2 := upd_edge w1 e (fun x => x <| eintransit ::= filter (fun t => negb (Nat.eqb t it)) |>) in
                        w_succeed_all (out_err w2 r 61) ts
                    end) l w).
Proof.
  induction l as [|x l IH]; simpl; auto. intros w H. apply IH.
  destruct (wcrash w); auto. destruct (store_op w e (StoreB.Ready x)) as [[w1 r] ts] eqn:E.
  apply w_succeed_all_c, out_err_c, upd_edge_c. eapply store_op_c; eauto.
Qed.

Lemma fleetmove_block_c w : freepc -> CN w -> CN (fst (fleetmove_block w p0)).
Proof.
  intros F H. unfold fleetmove_block. own H.
  destruct (ppc (get_proc w p0)) as [|[|?]]; cbn [fst].
  - destruct (plst (get_proc w p0)); cbn [fst]; auto. destruct (w_timeout _ _) as [w1 t] eqn:E. cbn [fst].
    apply setpc_c; [pc_side|]. eapply w_timeout_c; eauto.
  - destruct (w_timeout _ _) as [w1 t] eqn:E. cbn [fst]. apply setpc_c; [pc_side|]. eapply w_timeout_c; eauto.
  - apply fleetmove_fold_c. auto.
Qed.

Lemma check_state_c w n : (n <> n0 \/ k0 <> NMachine) -> CN w -> CN (check_state w n).
Proof. intros M H. unfold check_state. destruct (count_threads _). kgo3. Qed.
#[local] Hint Resolve check_state_c : cdb.

Lemma sc_request_c w n pc : (ow0 = n0 -> pcok kd0 pc) -> CN w -> CN (fst (sc_request w p0 n pc)).
Proof.
  intros C H. unfold sc_request.
  destruct (res_request (wk w) n (nres (get_node w n))) as [[[k r] q]|] eqn:E; cbn [fst].
  - apply setpc_c; [exact C|]. apply upd_proc_keep; [cn_side|]. apply upd_node_keep; [cn_side|]. apply setk_c; [|exact H].
    eapply FactoryStamp.now_res_request; eauto.
  - auto with cdb.
Qed.
Lemma sc_release_c w n : freepc -> CN w -> CN (fst (sc_release w p0 n)).
Proof.
  intros F H. unfold sc_release.
  destruct (res_release (wk w) n (nres (get_node w n)) (ptk (me w p0))) as [[[k r] g]|] eqn:E; cbn [fst].
  - apply setpc_c; [pc_side|]. apply upd_node_keep; [cn_side|]. apply setk_c; [|exact H]. eapply FactoryStamp.now_res_release; eauto.
  - auto with cdb.
Qed.
#[local] Hint Resolve sc_release_c : cdb.

Lemma sc_dispatch_c w c ph : freepc -> NodeMode -> CN w -> CN (fst (sc_dispatch w p0 ow0 c ph)).
Proof. intros F M H. unfold sc_dispatch. kgo3. Qed.
#[local] Hint Resolve sc_dispatch_c : cdb.

Lemma sc_next_c w : freepc -> NodeMode -> CN w -> CN (fst (sc_next w p0 ow0)).
Proof. intros F M H. unfold sc_next. kgo3. Qed.
#[local] Hint Resolve sc_next_c : cdb.

Lemma sc_worker_cont_c w : freepc -> NodeMode -> CN w -> CN (fst (sc_worker_cont w p0 ow0)).
Proof. intros F M H. unfold sc_worker_cont. kgo3. Qed.
#[local] Hint Resolve sc_worker_cont_c : cdb.

Lemma sc_run_c f : freepc -> NodeMode -> forall w r, CN (fst r) -> CN (fst (sc_run f w p0 ow0 r)).
Proof.
  intros F M. induction f as [|f IH]; simpl; intros w r H; auto with cdb.
  destruct r as [w1 y]. cbn [fst] in *. destruct (wcrash w1); auto.
  destruct (Nat.eqb _ 8); auto. apply IH. auto with cdb.
Qed.

Lemma splitworker_block_c w : freepc -> NodeMode -> CN w -> CN (fst (splitworker_block w p0)).
Proof.
  intros F M H. unfold splitworker_block. own H. destruct (ppc (get_proc w p0)) as [|[|?]].
  - kgo3.
  - match goal with |- context [if ?b then _ else _] => destruct b end; cbn [fst]; auto with cdb.
    apply sc_run_c; auto 12 with cdb.
  - apply sc_run_c; auto with cdb.
Qed.

Lemma combworker_block_c w : freepc -> NodeMode -> CN w -> CN (fst (combworker_block w p0)).
Proof.
  intros F M H. unfold combworker_block. own H. destruct (ppc (get_proc w p0)); apply sc_run_c; auto with cdb.
Qed.

Lemma splitter_head_c w : kd0 = KSplitterB -> NodeMode -> CN w -> CN (fst (splitter_head w p0 ow0)).
Proof. intros HK M H. unfold splitter_head. kgo3. Qed.
#[local] Hint Resolve splitter_head_c : cdb.

Lemma splitter_start_c w pal : kd0 = KSplitterB -> NodeMode -> CN w -> CN (fst (splitter_start w p0 ow0 pal)).
Proof. intros HK M H. unfold splitter_start. kgo3. Qed.
#[local] Hint Resolve splitter_start_c : cdb.

Lemma splitter_block_c w : kd0 = KSplitterB -> NodeMode -> CN w -> CN (fst (splitter_block w p0)).
Proof.
  intros HK M H. pose proof (pc_fact w H) as HP0. unfold splitter_block. own H.
  destruct (ppc (get_proc w p0)) as [|pc] eqn:EP.
  - assert (NE : ow0 <> n0) by (intros EQ; specialize (HP0 EQ); rewrite HK, ?EP in HP0; simpl in HP0; lia). kgo3.
  - assert (forall q, ow0 = n0 -> pcok kd0 (S q)) as PCS by (intros q _; rewrite HK; simpl; lia).
    kgo3; apply sc_request_c; auto 14 with cdb.
Qed.

Lemma combiner_head_c w : kd0 = KCombinerB -> NodeMode -> CN w -> CN (fst (combiner_head w p0 ow0)).
Proof.
  intros HK M H. unfold combiner_head. cbv zeta. apply sc_request_c; [intros _; rewrite HK; simpl; lia|]. auto with cdb.
Qed.
#[local] Hint Resolve combiner_head_c : cdb.

Lemma combiner_rep_c e p kk j : forall a, CN (fst (fst a)) -> CN (fst (fst (comb_rep e p kk j a))).
Proof.
  induction j as [|j IH]; intros [[w0 ts] ix] H; simpl; auto.
  destruct (e_reserve_get w0 e p) as [w1 t] eqn:E. apply IH. cbn [fst]. eapply e_reserve_get_c; eauto.
Qed.

Lemma combiner_go_c rc p es : forall k acc r, CN (fst (fst acc)) -> comb_go rc p k es acc = Some r -> CN (fst (fst r)).
Proof.
  induction es as [|e es IH]; simpl; intros k acc r HA EQ.
  - inversion EQ; subst; auto.
  - destruct (nth_error rc k) as [q|]; [|discriminate]. eapply IH; [|exact EQ]. apply combiner_rep_c. exact HA.
Qed.

Lemma combiner_reserve_c w p n w1 a b : combiner_reserve w p n = Some (w1, a, b) -> CN w -> CN w1.
Proof.
  unfold combiner_reserve. intros E H.
  assert (CN (fst (fst (w1, a, b)))) as K by (eapply combiner_go_c; [|exact E]; cbn [fst]; exact H). exact K.
Qed.

Lemma combiner_loop_c w : kd0 = KCombinerB -> NodeMode -> CN w -> CN (fst (combiner_loop w p0 ow0)).
Proof. intros HK M H. unfold combiner_loop. kgo3. Qed.
#[local] Hint Resolve combiner_loop_c : cdb.

Lemma combiner_block_c w : kd0 = KCombinerB -> NodeMode -> CN w -> CN (fst (combiner_block w p0)).
Proof.
  intros HK M H. pose proof (pc_fact w H) as HP0. unfold combiner_block. own H.
  destruct (ppc (get_proc w p0)) as [|[|[|[|[|[|?]]]]]] eqn:EP.
  - assert (NE : ow0 <> n0) by (intros EQ; specialize (HP0 EQ); rewrite HK, ?EP in HP0; simpl in HP0; lia). kgo3.
  - auto with cdb.
  - destruct (e_get _ _ _ _ _) as [w1 it] eqn:E. assert (CN w1) by (eapply e_get_c; eauto).
    destruct it; cbn [fst]; auto. destruct (negb _); cbn [fst]; auto with cdb.
    destruct (combiner_reserve w1 p0 ow0) as [[[w2 a] b]|] eqn:E2; cbn [fst]; auto with cdb.
    assert (CN w2) by (eapply combiner_reserve_c; eauto).
    destruct (w_any_of w2 a) as [w3 c] eqn:E3. cbn [fst]. apply setpc_c; [pc_side|]. apply upd_proc_keep; [cn_side|]. eapply w_any_of_c; eauto.
  - auto with cdb.
  - kgo3.
  - kgo3.
  - kgo3.
Qed.

Lemma block_c w : CN w -> CN (fst (block w p0)).
Proof.
  intros H. pose proof H as ((_ & _ & P) & (Q1 & Q2 & Q3)).
  assert (CM : ow0 = n0 -> compat kd0 k0) by (intros E; rewrite <- Q2; apply P; [exact Q1|congruence]).
  unfold block, me. destruct (pkd (get_proc w p0)) eqn:EK;
    (assert (HK : kd0 = _) by (first [symmetry; exact Q2 | rewrite <- Q2; exact EK])); rewrite HK in CM; simpl in CM;
    try (assert (F : forall pc : nat, pcok kd0 pc) by (intros pc; rewrite HK; exact I));
    try (assert (M : NodeMode) by (destruct (Nat.eq_dec ow0 n0) as [E|E]; [right; exact (CM E)|left; exact E]));
    try (assert (M : MachMode) by (destruct (Nat.eq_dec ow0 n0) as [E|E]; [right; exact (CM E)|left; exact E]));
    first [apply source_block_c | apply machine_block_c | apply worker_block_c | apply sink_block_c | apply push_block_c
          | apply buftimer_block_c | apply fleetact_block_c | apply fleetmove_block_c | apply splitter_block_c
          | apply splitworker_block_c | apply combiner_block_c | apply combworker_block_c]; auto.
Qed.

Lemma resume_c f : forall w, CN w -> CN (resume f w p0).
Proof.
  induction f as [|f IH]; simpl; intros w H; auto with cdb.
  destruct (wcrash w); auto.
  pose proof (block_c (w <| wactive := p0 |>)) as B.
  destruct (block (w <| wactive := p0 |>) p0) as [w1 y]. cbn [fst] in B.
  assert (CN w1) as H1 by (apply B; revert H; apply same_c; reflexivity).
  destruct (wcrash w1); auto. destruct y.
  - destruct (e_proc _); [apply IH; exact H1|]. apply setk_c; [reflexivity|exact H1].
  - apply upd_proc_keep; [cn_side|]. apply setk_c; [reflexivity|exact H1].
Qed.

End AtTime.

(* ------------------------------------------------------------------ the kernel callbacks and one kernel step *)
Section Steps.
Variables (n0 : nat) (k0 : nkind) (cA cB : Z).

Lemma pw_same T w w' : wnow w' = wnow w -> wnodes w' = wnodes w -> wprocs w' = wprocs w -> PW T n0 k0 cA cB w -> PW T n0 k0 cA cB w'.
Proof. unfold PW, Acct, PrOK, get_node, get_proc. intros -> -> ->. auto. Qed.

Lemma pw_upd_node_keep T w n f :
  (forall x, nk (f x) = nk x /\ ntstate (f x) = ntstate x /\ nstate (f x) = nstate x /\ nlast (f x) = nlast x /\ nsrep (f x) = nsrep x) ->
  PW T n0 k0 cA cB w -> PW T n0 k0 cA cB (upd_node w n f).
Proof.
  intros K (N & (L & A) & P). split; [exact N|]. split; [|exact P].
  unfold Acct, get_node, upd_node in *. cbn [wnodes set]. simpl. rewrite upd_length. split; [exact L|].
  destruct (Nat.eq_dec n n0) as [->|NE].
  - rewrite nth_upd_same by exact L. destruct (K (nth n0 (wnodes w) node0)) as (K1 & K2 & K3 & K4 & K5).
    unfold AN in *. rewrite K1, K2, K3, K4, K5. exact A.
  - rewrite nth_upd_other by exact NE. exact A.
Qed.

Lemma pw_crashw T w c : PW T n0 k0 cA cB w -> PW T n0 k0 cA cB (crashw w c).
Proof. unfold crashw. destruct (wcrash w); auto. Qed.

Lemma run_cb_p T w c : PW T n0 k0 cA cB w -> PW T n0 k0 cA cB (run_cb w c).
Proof.
  intros H. unfold run_cb. destruct (wcrash w); auto. destruct c.
  - destruct (Nat.ltb_spec p (length (wprocs w))) as [L|L]; [|apply pw_crashw; exact H].
    assert (CN T n0 k0 cA cB p (pkd (get_proc w p)) (pown (get_proc w p)) w) as C by (split; [exact H|repeat split; auto]).
    exact (proj1 (resume_c T n0 k0 cA cB p _ _ FUEL w C)).
  - revert H. apply pw_same; try reflexivity. unfold wnow. cbn [wk set]. simpl. apply FactoryStamp.now_check.
  - destruct (res_trig_get _ _) as [[k1 r1]|] eqn:E; [|apply pw_crashw; exact H].
    apply pw_upd_node_keep; [intros ?; repeat split; reflexivity|]. revert H. apply pw_same; try reflexivity.
    unfold wnow. cbn [wk set]. simpl. eapply FactoryStamp.now_res_trig_get; eauto.
  - destruct (res_trig_put _ _) as [[k1 r1]|] eqn:E; [|apply pw_crashw; exact H].
    apply pw_upd_node_keep; [intros ?; repeat split; reflexivity|]. revert H. apply pw_same; try reflexivity.
    unfold wnow. cbn [wk set]. simpl. eapply FactoryStamp.now_res_trig_put; eauto.
  - exact H.
Qed.

Lemma run_cbs_p T l : forall w, PW T n0 k0 cA cB w -> PW T n0 k0 cA cB (fold_left run_cb l w).
Proof. induction l as [|c l IH]; simpl; auto. intros w H. apply IH, run_cb_p, H. Qed.

(* the predicate at a later time: only "the stamp is not in the future" mentions the clock *)
Lemma pw_later T T' w k : T <= T' -> now k = T' -> PW T n0 k0 cA cB w -> PW T' n0 k0 cA cB (w <| wk := k |>).
Proof.
  intros LE NK (N & (L & A) & P). split; [exact NK|]. split; [|exact P]. split; [exact L|].
  destruct A as (A1 & A2 & A3 & A4 & l & A5 & A6 & A7). unfold AN.
  change (get_node (w <| wk := k |>) n0) with (get_node w n0).
  repeat split; auto. exists l. repeat split; auto. lia.
Qed.

Theorem fstep_p w w' : KInv (wk w) -> PW (wnow w) n0 k0 cA cB w -> fstep w = Some w' -> PW (wnow w') n0 k0 cA cB w'.
Proof.
  unfold fstep. intros KI H. destruct (wcrash w); [discriminate|].
  destruct (pop (wk w)) as [[[k e] cbs]|] eqn:E; [|discriminate]. intros [= <-].
  destruct (pop_kinv _ _ _ _ KI E) as (_ & M).
  pose proof (run_cbs_p (now k) cbs _ (pw_later _ _ w k M eq_refl H)) as R.
  pose proof (proj1 R) as RN. rewrite RN. exact R.
Qed.

(* C17: once node n0 has been stamped, its accounts keep pace with the stamp for the rest of the run *)
Theorem accounts_keep_pace w0 m :
  KInv (wk w0) -> PW (wnow w0) n0 k0 cA cB w0 ->
  let w := FactoryInv.iter_fstep m w0 in PW (wnow w) n0 k0 cA cB w.
Proof.
  revert w0. induction m as [|m IH]; simpl; intros w0 K H; auto. destruct (fstep w0) as [w'|] eqn:E; auto.
  apply IH; [exact (proj1 (FactoryInv.fstep_k _ _ K E))|eapply fstep_p; eauto].
Qed.

(* ... in particular between any two worlds of the run of any factory *)
Theorem accounts_keep_pace_in_every_factory nodes edges order j m :
  let wj := FactoryInv.iter_fstep j (mk_world nodes edges order) in
  PW (wnow wj) n0 k0 cA cB wj ->
  let w := FactoryInv.iter_fstep m wj in PW (wnow w) n0 k0 cA cB w.
Proof.
  intros wj H. apply accounts_keep_pace; [|exact H].
  exact (proj1 (FactoryInv.time_monotone nodes edges order j)).
Qed.

End Steps.

(* ------------------------------------------------------------------ what the predicate says after finalisation *)
(* Node.update_final_state_time(T') of a stamped node that is not a machine: the totals add up to T' + cA *)
Theorem finalize_node_sum T k0 cA cB nd nd' T' :
  AN T k0 cA cB nd -> k0 <> NMachine -> finalize_node T' nd = Some nd' -> sumz (ntstate nd') = T' + cA.
Proof.
  intros (A1 & A2 & A3 & A4 & l & A5 & A6 & A7) NM. unfold finalize_node. rewrite A1, A5.
  destruct k0; try congruence.
  all: try (intros [= <-]; cbn; rewrite sumz_upd by lia; lia).
  all: destruct (negb _); [discriminate|]; intros [= <-]; cbn; rewrite sumz_upd by lia; lia.
Qed.

(* Machine.update_final_state_time(T'): each of the two state groups adds up to T' + its constant *)
Lemma finalize_machine_ntstate nd nd' T' l p b :
  nk nd = NMachine -> nlast nd = Some l -> nsrep nd = (p, b) -> finalize_node T' nd = Some nd' ->
  ntstate nd' = rep_add p b (T' - l) (ntstate nd).
Proof.
  intros A1 A5 ER. unfold finalize_node. rewrite A1, A5. destruct (negb _); [discriminate|].
  cbn [nsrep set]. simpl. rewrite ER. intros [= <-]. reflexivity.
Qed.
Theorem finalize_machine_groups T cA cB nd nd' T' :
  AN T NMachine cA cB nd -> finalize_node T' nd = Some nd' ->
  gA (ntstate nd') = T' + cA /\ gB (ntstate nd') = T' + cB.
Proof.
  intros (A1 & A2 & A3 & A4 & l & A5 & A6 & GA & GB & Hp & Hb) F.
  destruct (nsrep nd) as [p b] eqn:ER. simpl in Hp, Hb.
  rewrite (finalize_machine_ntstate _ _ _ _ _ _ A1 A5 ER F).
  destruct (rep_add_groups p b (T' - l) (ntstate nd) Hp Hb A2) as (RA & RB & _). rewrite RA, RB. lia.
Qed.

(* ------------------------------------------------------------------ a decision procedure for the predicate
   (used to exhibit worlds that satisfy it: the theorems above are not vacuous) *)
Definition nkind_eqb (a b : nkind) : bool :=
  match a, b with
  | NSource, NSource | NMachine, NMachine | NSink, NSink | NSplitter, NSplitter | NCombiner, NCombiner => true
  | _, _ => false
  end.
Lemma nkind_eqb_eq a b : nkind_eqb a b = true <-> a = b.
Proof. destruct a, b; simpl; split; intros; try reflexivity; try discriminate. Qed.

Definition compat_b (kd : pkind) (k : nkind) : bool :=
  match kd with
  | KMachineB | KWorker => nkind_eqb k NMachine
  | KSourceB | KSinkB | KSplitterB | KSplitWorker | KCombinerB | KCombWorker => negb (nkind_eqb k NMachine)
  | _ => true
  end.
Definition pcok_b (kd : pkind) (pc : nat) : bool :=
  match kd with KMachineB => (2 <=? pc)%nat | KSplitterB | KCombinerB => (1 <=? pc)%nat | _ => true end.

Definition an_check (T : Z) (k0 : nkind) (cA cB : Z) (nd : node) : bool :=
  nkind_eqb (nk nd) k0 && (6 <=? length (ntstate nd))%nat && (nstate nd <? 6)%nat && forallb (fun x => 0 <=? x) (ntstate nd) &&
  match nlast nd with
  | None => false
  | Some l =>
      (l <=? T) &&
      match k0 with
      | NMachine => (gA (ntstate nd) =? l + cA) && (gB (ntstate nd) =? l + cB) && (0 <=? fst (nsrep nd)) && (0 <=? snd (nsrep nd))
      | _ => sumz (ntstate nd) =? l + cA
      end
  end.
Definition pw_check (T : Z) (n0 : nat) (k0 : nkind) (cA cB : Z) (w : world) : bool :=
  (wnow w =? T) && (n0 <? length (wnodes w))%nat && an_check T k0 cA cB (get_node w n0) &&
  forallb (fun pr => negb (Nat.eqb (pown pr) n0) || (compat_b (pkd pr) k0 && pcok_b (pkd pr) (ppc pr))) (wprocs w).

Lemma an_check_sound T k0 cA cB nd : an_check T k0 cA cB nd = true -> AN T k0 cA cB nd.
Proof.
  unfold an_check, AN. intros H.
  apply andb_prop in H as (H & H5). apply andb_prop in H as (H & H4). apply andb_prop in H as (H & H3).
  apply andb_prop in H as (H1 & H2).
  apply nkind_eqb_eq in H1. apply Nat.leb_le in H2. apply Nat.ltb_lt in H3.
  split; [exact H1|]. split; [exact H2|]. split; [exact H3|].
  split. { unfold nonneg. rewrite Forall_forall. rewrite forallb_forall in H4. intros x Hx. apply Z.leb_le, H4, Hx. }
  destruct (nlast nd) as [l|]; [|discriminate]. exists l. split; [reflexivity|].
  apply andb_prop in H5 as (H5 & H6). apply Z.leb_le in H5. split; [exact H5|].
  destruct k0; try (apply Z.eqb_eq; exact H6).
  apply andb_prop in H6 as (H6 & H9). apply andb_prop in H6 as (H6 & H8). apply andb_prop in H6 as (H6 & H7).
  apply Z.eqb_eq in H6, H7. apply Z.leb_le in H8, H9. auto.
Qed.

Theorem pw_check_sound T n0 k0 cA cB w : pw_check T n0 k0 cA cB w = true -> PW T n0 k0 cA cB w.
Proof.
  unfold pw_check. intros H. apply andb_prop in H as (H & H4). apply andb_prop in H as (H & H3). apply andb_prop in H as (H1 & H2).
  apply Z.eqb_eq in H1. apply Nat.ltb_lt in H2. apply an_check_sound in H3.
  split; [exact H1|]. split; [split; [exact H2|exact H3]|].
  intros p Lp O. rewrite forallb_forall in H4. specialize (H4 (get_proc w p) (nth_In _ proc0 Lp)).
  rewrite O, Nat.eqb_refl in H4. simpl in H4. apply andb_prop in H4 as (C & Q). split.
  - unfold compat, compat_b in *. destruct (pkd (get_proc w p)); auto.
    all: first [apply nkind_eqb_eq; exact C
               | (intros EQ; apply nkind_eqb_eq in EQ; rewrite EQ in C; discriminate)].
  - unfold pcok, pcok_b in *. destruct (pkd (get_proc w p)); auto; apply Nat.leb_le; exact Q.
Qed.
