(* Small model-level lemmas used by the property files C09, C10, C16, C20. *)
From Coq Require Import List ZArith Lia Bool Arith.
From RecordUpdate Require Import RecordUpdate.
From FV Require Import ListLemmas Kernel SrcFragments Lens Accounting World Factory.
From FV Require StoreB.
Import ListNotations.
Open Scope Z_scope.

(* ---------------------------------------------------------------- C16: the combiner's recipe *)
(* the inner loop reserves exactly q tokens on one ingredient edge, all tagged with its index k *)
Lemma rep_counts e p k q : forall a,
  snd (comb_rep e p k q a) = snd a ++ repeat k q /\
  length (snd (fst (comb_rep e p k q a))) = (length (snd (fst a)) + q)%nat.
Proof.
  induction q as [|q IH]; intros [[w0 ts] ix]; simpl.
  - rewrite app_nil_r. split; auto.
  - destruct (e_reserve_get w0 e p) as [w1 t]. specialize (IH (w1, ts ++ [t], ix ++ [k])). simpl in IH.
    destruct IH as (A & B). split.
    + rewrite A. rewrite <- app_assoc. reflexivity.
    + rewrite B, app_length. simpl. lia.
Qed.

(* the tags of the tokens reserved for a recipe: index k repeated recipe[k] times, k = 1, 2, ... *)
Fixpoint recipe_tags (k : nat) (n_edges : nat) (recipe : list nat) : option (list nat) :=
  match n_edges with
  | O => Some []
  | S m => match nth_error recipe k with
           | None => None
           | Some q => match recipe_tags (S k) m recipe with
                       | Some r => Some (repeat k q ++ r)
                       | None => None
                       end
           end
  end.

Lemma comb_go_tags rc p es : forall k acc,
  match comb_go rc p k es acc, recipe_tags k (length es) rc with
  | Some (_, toks, idxs), Some tags => idxs = snd acc ++ tags /\ length toks = (length (snd (fst acc)) + length tags)%nat
  | None, None => True
  | Some _, None => False
  | None, Some _ => False
  end.
Proof.
  induction es as [|e rest IH]; intros k acc; simpl.
  - destruct acc as [[w0 ts] ix]. simpl. rewrite app_nil_r. split; auto.
  - destruct (nth_error rc k) as [q|]; auto.
    destruct (rep_counts e p k q acc) as (R1 & R2).
    specialize (IH (S k) (comb_rep e p k q acc)).
    destruct (comb_go rc p (S k) rest (comb_rep e p k q acc)) as [[[w2 toks] idxs]|];
      destruct (recipe_tags (S k) (length rest) rc) as [tags|]; auto.
    destruct IH as (A & B). split.
    + rewrite A, R1, <- app_assoc. reflexivity.
    + rewrite B, R2, !app_length, repeat_length. lia.
Qed.

(* Combiner.behaviour reserves, for every ingredient edge i >= 1, exactly target_quantity[i] tokens
   tagged i -- no more, no fewer; with a recipe that is too short it raises IndexError *)
Theorem combiner_reserves_recipe w p n :
  match combiner_reserve w p n, recipe_tags 1 (length (tl (nins (get_node w n)))) (nrecipe (get_node w n)) with
  | Some (_, toks, idxs), Some tags => idxs = tags /\ length toks = length tags
  | None, None => True
  | Some _, None => False
  | None, Some _ => False
  end.
Proof.
  unfold combiner_reserve. cbv zeta.
  pose proof (comb_go_tags (nrecipe (get_node w n)) p (tl (nins (get_node w n))) 1%nat (w, [], [])) as G.
  simpl in G. exact G.
Qed.

(* each round of the gathering loop consumes exactly one outstanding token (and its tag) *)
Lemma remove_nth_count (l : list nat) ti : (ti < length l)%nat -> S (length (remove_nth ti l)) = length l.
Proof. apply remove_nth_len_lt. Qed.

(* ---------------------------------------------------------------- C20: invalid configurations *)
Theorem invalid_constant_index_rejected pol n :
  (exists i, pol = PConst i /\ in_range i n = false) -> policy_ok pol n <> None.
Proof. intros (i & -> & H). simpl. rewrite H. discriminate. Qed.

Theorem unknown_policy_rejected n : policy_ok PBad n <> None.
Proof. simpl. discriminate. Qed.

(* a machine whose constant in-edge index is out of range crashes in its very first block, before
   any reservation is made (no kernel state other than the crash flag changes) *)
Theorem machine_bad_index_crashes w p i :
  pkd (me w p) = KMachineB -> ppc (me w p) = 0%nat -> wcrash w = None ->
  ninsel (get_node w (pown (me w p))) = PConst i -> in_range i (length (nins (get_node w (pown (me w p))))) = false ->
  wcrash (fst (block w p)) <> None /\ wk (fst (block w p)) = wk w /\ wedges (fst (block w p)) = wedges w.
Proof.
  intros K PC NC S R. unfold block. rewrite K. unfold machine_block. rewrite PC, S. simpl. rewrite R. simpl.
  unfold crashw. rewrite NC. simpl. repeat split; auto. discriminate.
Qed.

(* negative delays are rejected by the kernel model exactly like env.timeout raises ValueError *)
Theorem negative_timeout_rejected w d : d < 0 -> wcrash w = None -> wcrash (fst (w_timeout w d)) <> None.
Proof.
  intros H NC. unfold w_timeout. destruct (Z.ltb_spec d 0); [|lia]. simpl. unfold crashw. rewrite NC. simpl. discriminate.
Qed.
