(* C08: Machine and Combiner ask for their worker slot before they touch an in-edge.
   [quiet w w']: no edge, no flow item and no trace entry differs -- nothing was reserved, pulled,
   pushed, packed or drawn.  The loop heads of Machine.behaviour (machine_request) and of
   Combiner.behaviour (combiner_head; reached from the end of the set-up period, pc 1, and after a
   finished pallet has been handed to its worker process, pc >= 6) are quiet and suspend the process
   on the event of the slot request just issued (or the run has crashed): every reservation and
   retrieval of the node's behaviour process happens in a later resumption, i.e. with the slot
   granted. *)
From Coq Require Import List ZArith Lia Bool Arith.
From RecordUpdate Require Import RecordUpdate.
From FV Require Import ListLemmas Kernel World Factory.
Import ListNotations.

Definition quiet (w w' : world) : Prop :=
  wedges w' = wedges w /\ witems w' = witems w /\ wlog w' = wlog w.

Lemma quiet_refl w : quiet w w. Proof. repeat split. Qed.
Lemma quiet_trans a b c : quiet a b -> quiet b c -> quiet a c.
Proof. intros [H1 [H2 H3]] [G1 [G2 G3]]. repeat split; congruence. Qed.

Lemma quiet_upd_node w n f : quiet w (upd_node w n f). Proof. repeat split. Qed.
Lemma quiet_upd_proc w p f : quiet w (upd_proc w p f). Proof. repeat split. Qed.
Lemma quiet_setpc w p c : quiet w (setpc w p c). Proof. repeat split. Qed.
Lemma quiet_crashw w c : quiet w (crashw w c).
Proof. unfold crashw. destruct (wcrash w); repeat split. Qed.
Lemma quiet_setk w k : quiet w (w <| wk := k |>). Proof. repeat split. Qed.

Lemma quiet_update_state w n st : quiet w (update_state w n st).
Proof. unfold update_state. destruct (nlast (get_node w n)); repeat split. Qed.

Lemma quiet_check_state w n : quiet w (check_state w n).
Proof.
  unfold check_state. destruct (count_threads (get_node w n)) as [a b].
  repeat match goal with |- context [if ?c then _ else _] => destruct c end;
    auto using quiet_crashw, quiet_update_state.
Qed.

Lemma quiet_update_state_rep w n : quiet w (update_state_rep w n).
Proof.
  unfold update_state_rep. destruct (nlast (get_node w n)); [|apply quiet_upd_node].
  destruct (nsrep (get_node w n)) as [a b]. destruct (count_threads (get_node w n)) as [c d].
  match goal with |- context [if ?c then _ else _] => destruct c end.
  - eapply quiet_trans; [|apply quiet_crashw]. apply quiet_upd_node.
  - apply quiet_upd_node.
Qed.

(* what a slot request does: quiet, and the process is suspended on the request's own event *)
Definition waits_for_slot (r : world * yld) (p : nat) : Prop :=
  wcrash (fst r) <> None \/ exists q, snd r = YEvent q /\ (p < length (wprocs (fst r)) -> ptk (me (fst r) p) = q)%nat.

Lemma upd_len {A} n (f : A -> A) l : length (upd n f l) = length l.
Proof. revert n; induction l as [|x l IH]; intros [|n]; simpl; auto. Qed.

Lemma nth_upd_ptk p (f : proc -> proc) l :
  (forall x, ptk (f x) = ptk x) -> ptk (nth p (upd p f l) proc0) = ptk (nth p l proc0).
Proof. intros F. revert p; induction l as [|x l IH]; intros [|p]; simpl; auto. Qed.

Lemma me_setpc_ptk w p c : ptk (me (setpc w p c) p) = ptk (me w p).
Proof. unfold me, get_proc, setpc, upd_proc. simpl. apply nth_upd_ptk. reflexivity. Qed.

Lemma me_upd_ptk w p q : (p < length (wprocs w))%nat -> ptk (me (upd_proc w p (fun x => x <| ptk := q |>)) p) = q.
Proof.
  unfold me, get_proc, upd_proc. simpl. generalize (wprocs w). intros l. revert p.
  induction l as [|x l IH]; intros [|p] H; simpl in *; try lia; auto. apply IH. lia.
Qed.

Lemma sc_request_slot w p n pc : quiet w (fst (sc_request w p n pc)) /\ waits_for_slot (sc_request w p n pc) p.
Proof.
  unfold sc_request. destruct (res_request (wk w) n (nres (get_node w n))) as [[[k r] q]|] eqn:E.
  - split; [repeat split|]. right. exists q. split; [reflexivity|]. cbn [fst]. intros H.
    rewrite me_setpc_ptk. apply me_upd_ptk. unfold setpc, upd_proc, upd_node in H. cbn in H.
    rewrite !upd_len in H. exact H.
  - split; [apply quiet_crashw|]. left. cbn [fst]. unfold crashw. destruct (wcrash w) eqn:C; cbn; congruence.
Qed.

Theorem combiner_head_slot_first w p n :
  quiet w (fst (combiner_head w p n)) /\ waits_for_slot (combiner_head w p n) p.
Proof.
  unfold combiner_head. destruct (sc_request_slot (check_state w n) p n 5) as [Q W]. split; [|exact W].
  eapply quiet_trans; [apply quiet_check_state|exact Q].
Qed.

Theorem machine_request_slot_first w p n :
  quiet w (fst (machine_request w p n)) /\ waits_for_slot (machine_request w p n) p.
Proof.
  unfold machine_request. set (w1 := update_state_rep w n).
  assert (Q1 : quiet w w1) by apply quiet_update_state_rep.
  destruct (res_request (wk w1) n (nres (get_node w1 n))) as [[[k r] q]|] eqn:E.
  - split; [eapply quiet_trans; [exact Q1|repeat split]|]. right. exists q. split; [reflexivity|]. cbn [fst]. intros H.
    rewrite me_setpc_ptk. apply me_upd_ptk. unfold setpc, upd_proc, upd_node in H. cbn in H.
    rewrite !upd_len in H. exact H.
  - split; [eapply quiet_trans; [exact Q1|apply quiet_crashw]|]. left. cbn [fst]. unfold crashw. destruct (wcrash w1) eqn:C; cbn; congruence.
Qed.

(* the combiner's process block at the end of set-up *)
Theorem combiner_after_setup_slot_first w p :
  ppc (me w p) = 1%nat ->
  quiet w (fst (combiner_block w p)) /\ waits_for_slot (combiner_block w p) p.
Proof.
  intros H. unfold combiner_block. rewrite H.
  destruct (combiner_head_slot_first (update_state w (pown (me w p)) 1) p (pown (me w p))) as [Q W].
  split; [|exact W]. eapply quiet_trans; [apply quiet_update_state|exact Q].
Qed.

Lemma quiet_spawn w pr : quiet w (fst (fst (spawn w pr))).
Proof.
  unfold spawn. destruct (w_event w) as [w1 d] eqn:E1. destruct (w_event w1) as [w2 i] eqn:E2.
  unfold w_event in *. injection E1 as <- <-. injection E2 as <- <-. repeat split.
Qed.

(* ... and after a finished pallet has been handed to its worker process *)
Theorem combiner_after_handover_slot_first w p :
  (6 <= ppc (me w p))%nat ->
  quiet w (fst (combiner_block w p)) /\ waits_for_slot (combiner_block w p) p.
Proof.
  intros H. unfold combiner_block.
  destruct (ppc (me w p)) as [|[|[|[|[|[|c]]]]]]; try lia. cbv zeta.
  match goal with |- context [spawn ?a ?b] => pose proof (quiet_spawn a b) as QS; destruct (spawn a b) as [[w1 wp] dn] end.
  cbn [fst] in QS.
  match goal with |- context [combiner_head ?a ?b ?c] => destruct (combiner_head_slot_first a b c) as [Q W] end.
  split; [|exact W].
  eapply quiet_trans; [|exact Q]. eapply quiet_trans; [|apply quiet_upd_node].
  eapply quiet_trans; [|exact QS]. apply quiet_upd_node.
Qed.
