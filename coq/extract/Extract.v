(* Extraction of the executable model for the correspondence check.
   ExtrOcamlBasic only: bool, option, unit, prod, list, sumbool map to OCaml's own types;
   nat, positive, Z stay the extracted inductive types.  No Extract Constant of ours. *)
From Coq Require Import Extraction ExtrOcamlBasic.
From FV Require StoreP StoreB StoreQ SrcFragments Lens TBuffer TFleet TBelt Kernel World Factory Conserve.
Extraction Language OCaml.
Separate Extraction StoreP.step StoreP.init StoreP.run_trace
  StoreB.step StoreB.init StoreB.run_trace
  Lens.lensB Lens.lensP SrcFragments TBuffer.tstep TBuffer.tinit TFleet.fstep TFleet.finit TBelt.bstep TBelt.binit TBelt.gate
  StoreQ.qstep StoreQ.qinit StoreQ.qrun_trace
  Factory.mk_world Factory.run_until Factory.finalize_node Factory.finalize_edge Factory.fstep
  World.node0 World.edge0 Kernel.res_init
  Conserve.mstep Conserve.accept Conserve.cnt Conserve.is_src Conserve.is_edge Conserve.is_node Conserve.is_pal Conserve.is_disc Conserve.is_recv.
