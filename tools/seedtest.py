#!/venv/bin/python
"""Confirm seeded mutants and run the checks against them.
usage: seedtest.py <dir with m*/patch.diff,demo.py,meta.json> <worktree> [--props C01,C02] [--tier quick] [--skip-tests]"""
import sys, os, json, subprocess, glob, argparse, time
ap = argparse.ArgumentParser()
ap.add_argument("src"); ap.add_argument("wt")
ap.add_argument("--props", default=""); ap.add_argument("--tier", default="quick"); ap.add_argument("--skip-tests", action="store_true")
a = ap.parse_args()

def sh(cmd, **kw):
    p = subprocess.run(cmd, shell=True, stdout=subprocess.PIPE, stderr=subprocess.STDOUT, text=True, **kw)
    return p.returncode, p.stdout

rows = []
for m in sorted(glob.glob(os.path.join(a.src, "m*"))):
    meta = json.load(open(os.path.join(m, "meta.json")))
    pid = meta["property"]
    props = a.props.split(",") if a.props else [pid]
    sh("git -C %s checkout -- . && git -C %s clean -fdq" % (a.wt, a.wt))
    rc0, _ = sh("/venv/bin/python %s/demo.py %s" % (m, a.wt), timeout=300)
    rc, out = sh("git -C %s apply %s/patch.diff" % (a.wt, m))
    if rc:
        rows.append((m, "patch does not apply", out[-200:])); continue
    rc1, _ = sh("/venv/bin/python %s/demo.py %s" % (m, a.wt), timeout=300)
    tests = "skipped"
    if not a.skip_tests:
        _, out = sh("cd %s && PYTHONPATH=%s/src /venv/bin/python -m pytest -q -p no:cacheprovider --timeout=900 --continue-on-collection-errors 2>&1 | tail -1" % (a.wt, a.wt), timeout=900)
        tests = out.strip().split("\n")[-1]
    res = {}
    for p in props:
        t0 = time.time()
        rc, out = sh("cd /verif && VERIF_REPO=%s /venv/bin/python checks/check.py %s --tier %s" % (a.wt, p, a.tier), timeout=3600)
        v = [l for l in out.split("\n") if l.startswith("VIOLATION")]
        res[p] = dict(rc=rc, violation=(v[0][:160] if v else ""), wall=round(time.time() - t0, 1))
    sh("git -C %s checkout -- . && git -C %s clean -fdq" % (a.wt, a.wt))
    rows.append((m, dict(demo_clean=rc0, demo_mutant=rc1, tests=tests, checks=res, what=meta.get("what", "")[:150])))
for r in rows:
    print(r[0]); print("   ", json.dumps(r[1]))
