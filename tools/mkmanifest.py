#!/venv/bin/python
"""Regenerate MANIFEST.json from the claims table below (kept here so that the texts live in one place)."""
import json, os
V = "/verif"
props = [json.loads(l) for l in open(V + "/properties.jsonl")]
L1_NOTE = ("Trusted: Coq 8.16.1 kernel; no axioms (Print Assumptions: closed under the global context, re-measured on every run); "
           "hand-written Gallina model tied to /repo by differential correspondence through the extracted OCaml model "
           "(ExtrOcamlBasic only) and by source fragments regenerated on every run (translator/py_to_gallina.py) -- the Python "
           "classes, SimPy and CPython lists are modelled, not verified.")
claimed = {
 "C01": ("sec 7", "CapInv invariant by induction over op histories (Coq), admission tests regenerated from source, differential correspondence of the extracted model against the real store classes",
  "Theorems C01_capacity_* / C01_granted_put_ok_*: for every capacity and every history of reserve/put/get/cancel calls and internal timer events (the store-level model lets internal events occur at any point of a history, which covers every schedule), items + granted put reservations <= capacity, and a put with a granted reservation succeeds. Proved for the positional stores (ReservableReqStore, ReservablePriorityReqStore, ReservablePriorityReqFilterStore) and the bound-item stores (BufferStore, FleetStore, both belt stores' reservation layer with the time-driven spacing test as an arbitrary boolean gate). Tie: >=2800 generated histories per run on the seven real classes vs the extracted model, comparing results, triggered tokens and all reservation lists after every call."),
 "C02": ("sec 7", "multiset conservation + injective binding invariants by induction (Coq), differential correspondence",
  "Theorems C02_conservation_*, C02_binding_injective, C02_granted_get_ok_*, C02_binding_stable: multiset(put) = multiset(got) + multiset(inside) after every history; granted retrieval reservations are bound to pairwise distinct ready items; a get with a granted token returns exactly its bound item whatever other reservations were used or cancelled. Side condition for the bound-item stores: callers put pairwise distinct objects."),
 "C04": ("sec 7", "no-pending-while-servable invariant by induction (Coq), differential correspondence incl. timer events",
  "Theorems C04_no_pending_while_servable_{positional,bound,filter}: after every API call and every internal event no request is waiting while the request next in line could be served. For the filter store time passing alone is excluded (age filter) and the store's own timer is shown to restore the invariant. The belt stores' put side is not covered by a theorem (their spacing gate is time driven); their get side and everything else is."),
 "C05": ("sec 7", "sortedness-by-(priority,arrival) invariant and head-is-minimum theorems (Coq), differential correspondence of trigger order",
  "Theorems C05_queues_sorted_*, C05_{put,get}_grant_is_min_*: in every reachable state both waiting queues are strictly sorted by (priority, arrival number) and every grant removes the head, which precedes every other waiting request; stores without priorities use priority 0 for all (FCFS). PriorityReqStore (plain SimPy put/get requests with priorities, theories/Stores/StoreQ.v) likewise: C05_queues_sorted_priority_req_store, C05_grant_is_min_priority_req_store."),
 "C06": ("sec 7", "availability-order / binding-discipline theorems (Coq), differential correspondence of item identities",
  "Theorems C06_*: ready_items changes only by appending the newly available item or deleting the retrieved one; a grant binds the first (FIFO) / last (LIFO) unreserved item, for the filter store the first unreserved item satisfying the filter; cancelling a granted retrieval only unbinds (bound stores) / re-inserts the item ahead of all never-reserved items (positional stores). The factory-level corollary (FIRST_AVAILABLE nodes) is not covered yet."),
 "C07": ("sec 7", "ill-formed call => (same state, RuntimeError, nothing triggered) theorem (Coq), malformed-call stream in the correspondence",
  "Theorems C07_rejected_is_noop_*, C07_wellformed_accepted_*: a put/get without a granted, unused, un-cancelled reservation of the calling process, and a cancel of an unknown token, returns RuntimeError with the store unchanged; every other call is accepted."),
 "C11": ("sec 7", "can_put/can_get/occupancy regenerated from source and proved equivalent to immediate grant (Coq); timed buffer model with delay theorems; differential correspondence on the real Buffer edge with probes",
  "Theorems C11_can_{put,get}_iff_immediate_grant (for the expressions regenerated from edges/buffer.py and edges/fleet.py on every run, in every state satisfying the reachable-state invariants), C11_occupancy_counts_both, and the delay theorems C11_not_ready_before_due / C11_get_returns_due_item / C11_available_from_due / C11_available_after_due over every legal timed history of the TBuffer model (the kernel's 'processed at its scheduled time' contract is the legality condition and is checked against the real kernel by the correspondence)."),
}
claimed["C14"] = ("sec 7", "timed Fleet model with batch / round-trip / waiting-bound theorems by invariant induction over legal histories (Coq); differential correspondence on the real Fleet edge (micro-step exact) and inside factories",
  "Theorems C14_departure_condition (the activation fires only at the delay deadline or after the capacity trigger), C14_capacity_trigger (the trigger is set exactly by the load that makes held items reach the capacity), C14_batch_is_waiting_items (exactly the held items not already travelling leave, in loading order, due one full round trip later; timer re-armed), C14_batch_arrives_together (the whole batch is appended to the ready items in one instant, exactly when due), C14_waiting_bound (every legal timed history, every capacity / delay / transit delay incl. zero: load + 2*transit <= availability <= load + delay + 2*transit), C14_later_load_waits. The kernel contract (an event is processed at its scheduled time; the clock never passes a pending event) is the legality condition of the timed model and is checked against the real kernel by the correspondence. The bound is proved for every item that became available; that it does become available rests on the kernel contract.")
na = {
}
L2_NOTE = ("Trusted: Coq 8.16.1 kernel; no axioms (Print Assumptions re-measured on every run); the node / edge classes and the "
           "SimPy kernel are re-expressed as an executable Gallina factory model (coq/theories/Kernel, coq/theories/Factory) "
           "which is tied to /repo by trace-exact differential correspondence on random factories (extracted OCaml, "
           "ExtrOcamlBasic only); theorems proved for all inputs are named in the claim, everything else the claim calls "
           "'compared' is exploration of the model-vs-code tie, not proof.")
claimed.update({
 "C03": ("sec 8", "verified conservation monitor (Coq) run on implementation and model traces + trace-exact factory correspondence; per-edge conservation theorems",
  "PARTIAL. Theorems: C03_monitor_sound / C03_monitor_prefix_closed -- a movement trace accepted by the monitor keeps every generated item in exactly one place and satisfies generated = at sources + in edges + in nodes + packed + discarded + received after every prefix; C03_edge_step_conserves for every store operation. The extracted monitor runs on the trace of the real classes for every explored factory, and the model's trace equals the implementation's line by line. Not proved: acceptance for every configuration."),
 "C08": ("sec 8", "Resource capacity invariant (Coq) + trace-exact factory correspondence with per-item timing oracle",
  "PARTIAL. Theorems C08_slots_*: the worker-slot resource never has more users than its capacity under any sequence of requests, releases and kernel callbacks; C08_one_draw: one delay draw per get_delay call. Offer time = pull time + delay, one draw per item and held <= work_capacity are compared on every explored factory (Machine, Splitter, Combiner) through the trace-exact model; not proved for every configuration."),
 "C09": ("sec 8", "can_put probe regenerated from source and proved exact (Coq); URGENT-before-NORMAL kernel lemma; trace-exact factory correspondence with blocking / non-blocking oracle",
  "PARTIAL. Theorems C09_probe_is_exact (the regenerated Buffer.can_put / Fleet.can_put is true iff a reservation issued now is granted at once, in every reachable store state) and C09_urgent_first. 'Blocking never discards' and 'non-blocking pushes or drops at the ready instant' are compared on every explored factory; not yet proved for every configuration."),
 "C10": ("sec 8", "store-level no-lost-wake-up and binding-stability theorems (Coq); trace-exact factory correspondence; end-of-run stranded-work oracle",
  "PARTIAL. Theorems C10_no_pending_while_servable, C10_step_keeps_no_lost_wakeup, C10_other_bindings_untouched (store layer, every history). The node-level statements are compared through the trace-exact model and an end-of-run check (no granted reservation left unused, no item left available to a sink or a free FIRST_AVAILABLE machine)."),
 "C15": ("sec 8", "round-robin generator regenerated from source and proved (Coq); model selector lemmas; trace-exact correspondence of recorded selections and routing",
  "PARTIAL. Theorems C15_round_robin_kth / C15_round_robin_in_range (regenerated update expression: the k-th value is k mod n), C15_model_round_robin, C15_model_constant, C15_range_test. Recorded selection lists vs actual routing, one draw per item and rejection of out-of-range indices are compared on every explored factory."),
 "C16": ("sec 8", "combiner reservation-count theorem (Coq); trace-exact correspondence of packing / unpacking",
  "PARTIAL. Theorem C16_combiner_reserves_recipe: the model of Combiner.behaviour reserves exactly target_quantity[i] tokens on ingredient edge i (IndexError if the recipe is too short); C16_one_token_per_round. Pallet contents per in-edge, pallet origin and the splitter's emission order are compared on every explored pallet factory (K / P lines)."),
 "C17": ("sec 8", "classification conditions regenerated from source; partition and sum theorems for all update sequences (Coq); trace-exact comparison of final state-time tables",
  "Theorems C17_conditions_regenerated, C17_groupA_partition, C17_groupB_partition, C17_machine_groups_sum (each documented group adds up to the elapsed time, all totals non-negative, for every sequence of updates at non-decreasing times), C17_node_states_sum (Node.update_state). Exact arithmetic; the final tables of all nodes are compared with the model on every explored factory and checked to add up to T. 'Charged = actually spent' is compared, not proved. Known limitation recorded in known_findings.jsonl: Machine.update_final_state_time before the end of set-up raises."),
 "C18": ("sec 8", "weighted-sum = integral theorem (Coq); trace-exact comparison of counters, weighted sums and cycle times with an independent recount",
  "Theorem C18_weighted_sum_is_integral: after any sequence of level updates at non-decreasing integer times the accumulator equals the sum over all unit ticks of the true level; C18_model_level_update ties the model's edge update to that accumulator. Counters, cycle times and weighted sums of every edge and node are compared with the model and recounted independently from the movement trace on every explored factory."),
 "C19": ("sec 8", "kernel-invariant lifting to every reachable world of every factory (Coq): time never goes back; reproducibility runs across interpreters and hash seeds",
  "Theorem C19_time_monotone: for every configuration and every number of kernel steps the kernel invariant holds and the clock never goes back (proved through all process blocks of Source, Machine, Sink, Splitter, Combiner, Buffer, Fleet). Reproducibility: the model is a function of the configuration; the implementation is run twice in one interpreter and in fresh interpreters with different PYTHONHASHSEED / allocation history and all outputs must be identical and equal to the model's -- that part is tested, not proved (PARTIAL)."),
 "C20": ("sec 8", "kernel invariant everywhere + rejection lemmas (Coq); crash-class correspondence on valid and invalid configuration streams; step-budget livelock detection",
  "PARTIAL. Theorems C20_kernel_invariant_everywhere, C20_negative_delay_rejected, C20_bad_constant_index_rejected, C20_unknown_policy_rejected, C20_machine_bad_index_crashes_at_once. Unhandled exceptions are explicit outcomes of the model and must match the real classes (exception class) on every explored factory and on a stream of invalid configurations (bad index, unknown policy, negative delay, capacity <= 0, unknown buffer mode, non-blocking source with zero inter-arrival); zero-time livelock is detected by a step budget. Crash freedom / finiteness for every valid configuration is not proved."),
})

checks = []
for pid, (ref, tech, text) in claimed.items():
    checks.append(dict(property_id=pid,
        quick_cmd="/venv/bin/python checks/check.py %s --tier quick" % pid,
        thorough_cmd="/venv/bin/python checks/check.py %s --tier thorough" % pid,
        evidence_file="/verif/evidence/%s.json" % pid,
        replay_cmd_template="/venv/bin/python checks/check.py %s --replay {path}" % pid,
        engine="coq", level_claimed=dict(category="proof", text=text, design_ref="DESIGN.md " + ref),
        level_note=(L2_NOTE if pid in ('C03','C08','C09','C10','C15','C16','C17','C18','C19','C20') else L1_NOTE), technique=tech))
default_na = "not claimed yet: the conveyor-belt edges' movement (belt motion, spacing, accumulation) is not modelled beyond the reservation layer -- see DESIGN.md"
m = dict(version=1, setup_cmd="cd /verif && /venv/bin/python checks/setup.py",
         hooks=dict(guard="FACTORYSIMPY_VERIF", enable="no hooks: the harness wraps methods from outside and drives env.step() itself",
                    baseline_off_cmd="cd /repo && /venv/bin/python -m pytest -ra -q -p no:cacheprovider --timeout=900 --continue-on-collection-errors",
                    source_commits=[], add_only=True),
         engines=[dict(name="coq", path="coq/", serves_properties=list(claimed),
                       kind_free_text="Gallina models + theorems (coq/theories, coq/properties), extracted to OCaml (ocaml/driver.ml) for the differential correspondence driven by harness/ and checks/")],
         checks=checks,
         notes="Proof-based (Coq 8.16). See DESIGN.md. known_findings.jsonl lists repaired defects (fix: commits in /repo) and open findings.",
         not_applicable=[dict(property_id=p["id"], reason=na.get(p["id"], default_na)) for p in props if p["id"] not in claimed])
json.dump(m, open(V + "/MANIFEST.json", "w"), indent=1)
print("claimed", list(claimed))
