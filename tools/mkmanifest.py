#!/venv/bin/python
"""Regenerate MANIFEST.json from the claims table below (kept here so that the texts live in one place)."""
import json, os
V = "/verif"
props = [json.loads(l) for l in open(V + "/properties.jsonl")]
L1_NOTE = ("Trusted: Coq 8.16.1 kernel; no axioms (Print Assumptions: closed under the global context, re-measured on every run); "
           "hand-written Gallina model tied to /repo by differential correspondence through the extracted OCaml model "
           "(ExtrOcamlBasic only) and by source fragments regenerated on every run (translator/py_to_gallina.py) -- the Python "
           "classes, SimPy and CPython lists are modelled, not verified.")
claimed = {
 "C01": ("sec 7", "CapInv invariant by induction over op histories (Coq), admission tests regenerated from source, differential correspondence of the extracted model against the real store classes",
  "Theorems C01_capacity_* / C01_granted_put_ok_*: for every capacity and every history of reserve/put/get/cancel calls and internal timer events (the store-level model lets internal events occur at any point of a history, which covers every schedule), items + granted put reservations <= capacity, and a put with a granted reservation succeeds. Proved for the positional stores (ReservableReqStore, ReservablePriorityReqStore, ReservablePriorityReqFilterStore) and the bound-item stores (BufferStore, FleetStore, both belt stores' reservation layer with the time-driven spacing test as an arbitrary boolean gate). Tie: >=2800 generated histories per run on the seven real classes vs the extracted model, comparing results, triggered tokens and all reservation lists after every call."),
 "C02": ("sec 7", "multiset conservation + injective binding invariants by induction (Coq), differential correspondence",
  "Theorems C02_conservation_*, C02_binding_injective, C02_granted_get_ok_*, C02_binding_stable: multiset(put) = multiset(got) + multiset(inside) after every history; granted retrieval reservations are bound to pairwise distinct ready items; a get with a granted token returns exactly its bound item whatever other reservations were used or cancelled. Side condition for the bound-item stores: callers put pairwise distinct objects."),
 "C04": ("sec 7", "no-pending-while-servable invariant by induction (Coq), differential correspondence incl. timer events",
  "Theorems C04_no_pending_while_servable_{positional,bound,filter}: after every API call and every internal event no request is waiting while the request next in line could be served. For the filter store time passing alone is excluded (age filter) and the store's own timer is shown to restore the invariant. The belt stores' put side is not covered by a theorem (their spacing gate is time driven); their get side and everything else is."),
 "C05": ("sec 7", "sortedness-by-(priority,arrival) invariant and head-is-minimum theorems (Coq), differential correspondence of trigger order",
  "Theorems C05_queues_sorted_*, C05_{put,get}_grant_is_min_*: in every reachable state both waiting queues are strictly sorted by (priority, arrival number) and every grant removes the head, which precedes every other waiting request; stores without priorities use priority 0 for all (FCFS). PriorityReqStore (plain SimPy put/get requests with priorities, theories/Stores/StoreQ.v) likewise: C05_queues_sorted_priority_req_store, C05_grant_is_min_priority_req_store."),
 "C06": ("sec 7", "availability-order / binding-discipline theorems (Coq), differential correspondence of item identities",
  "Theorems C06_*: ready_items changes only by appending the newly available item or deleting the retrieved one; a grant binds the first (FIFO) / last (LIFO) unreserved item, for the filter store the first unreserved item satisfying the filter; cancelling a granted retrieval only unbinds (bound stores) / re-inserts the item ahead of all never-reserved items (positional stores). The factory-level corollary (FIRST_AVAILABLE nodes) is not covered yet."),
 "C07": ("sec 7", "ill-formed call => (same state, RuntimeError, nothing triggered) theorem (Coq), malformed-call stream in the correspondence",
  "Theorems C07_rejected_is_noop_*, C07_wellformed_accepted_*: a put/get without a granted, unused, un-cancelled reservation of the calling process, and a cancel of an unknown token, returns RuntimeError with the store unchanged; every other call is accepted."),
 "C11": ("sec 7", "can_put/can_get/occupancy regenerated from source and proved equivalent to immediate grant (Coq); timed buffer model with delay theorems; differential correspondence on the real Buffer edge with probes",
  "Theorems C11_can_{put,get}_iff_immediate_grant (for the expressions regenerated from edges/buffer.py and edges/fleet.py on every run, in every state satisfying the reachable-state invariants), C11_occupancy_counts_both, and the delay theorems C11_not_ready_before_due / C11_get_returns_due_item / C11_available_from_due / C11_available_after_due over every legal timed history of the TBuffer model (the kernel's 'processed at its scheduled time' contract is the legality condition and is checked against the real kernel by the correspondence)."),
}
na = {
}
checks = []
for pid, (ref, tech, text) in claimed.items():
    checks.append(dict(property_id=pid,
        quick_cmd="/venv/bin/python checks/check.py %s --tier quick" % pid,
        thorough_cmd="/venv/bin/python checks/check.py %s --tier thorough" % pid,
        evidence_file="/verif/evidence/%s.json" % pid,
        replay_cmd_template="/venv/bin/python checks/check.py %s --replay {path}" % pid,
        engine="coq", level_claimed=dict(category="proof", text=text, design_ref="DESIGN.md " + ref),
        level_note=L1_NOTE, technique=tech))
default_na = "machinery under construction in this round (component / factory model layer not finished; see DESIGN.md section 10)"
m = dict(version=1, setup_cmd="cd /verif && /venv/bin/python checks/setup.py",
         hooks=dict(guard="FACTORYSIMPY_VERIF", enable="no hooks: the harness wraps methods from outside and drives env.step() itself",
                    baseline_off_cmd="cd /repo && /venv/bin/python -m pytest -ra -q -p no:cacheprovider --timeout=900 --continue-on-collection-errors",
                    source_commits=[], add_only=True),
         engines=[dict(name="coq", path="coq/", serves_properties=list(claimed),
                       kind_free_text="Gallina models + theorems (coq/theories, coq/properties), extracted to OCaml (ocaml/driver.ml) for the differential correspondence driven by harness/ and checks/")],
         checks=checks,
         notes="Proof-based (Coq 8.16). See DESIGN.md. known_findings.jsonl lists repaired defects (fix: commits in /repo) and open findings.",
         not_applicable=[dict(property_id=p["id"], reason=na.get(p["id"], default_na)) for p in props if p["id"] not in claimed])
json.dump(m, open(V + "/MANIFEST.json", "w"), indent=1)
print("claimed", list(claimed))
