#!/venv/bin/python
"""copy confirmed seeds from /tmp/seed_out/<pid>/m<k> into /verif/seeded/<pid>-m<k>/ with the
confirmation record produced by tools/seedtest.py (passed on stdin as its output)"""
import sys, os, json, shutil, re
txt = sys.stdin.read().split("\n")
i = 0
while i < len(txt) - 1:
    if txt[i].startswith("/tmp/") and txt[i + 1].strip().startswith("{"):
        src = txt[i].strip()
        rec = json.loads(txt[i + 1].strip())
        meta = json.load(open(os.path.join(src, "meta.json")))
        pid = meta["property"]
        k = os.path.basename(src)
        dst = "/verif/seeded/%s-%s" % (pid, k)
        ok = rec["demo_clean"] == 0 and rec["demo_mutant"] == 1 and rec["tests"].startswith("70 passed")
        if not ok and rec["tests"] != "skipped":
            print("NOT CONFIRMED", src, rec); i += 2; continue
        os.makedirs(dst, exist_ok=True)
        for f in ("patch.diff", "demo.py"):
            shutil.copy(os.path.join(src, f), dst)
        old = {}
        if os.path.exists(os.path.join(dst, "meta.json")):
            old = json.load(open(os.path.join(dst, "meta.json")))
        meta["confirmed"] = dict(demo_on_clean_tree_exit=rec["demo_clean"], demo_on_mutant_exit=rec["demo_mutant"],
                                 test_suite=rec["tests"] if rec["tests"] != "skipped" else old.get("confirmed", {}).get("test_suite", "skipped"),
                                 how="git apply patch.diff in a scratch worktree; /venv/bin/python demo.py <worktree>; pytest; "
                                     "VERIF_REPO=<worktree> checks/check.py <property> --tier quick")
        meta["checks"] = {p: dict(detected=bool(c["violation"]), line=c["violation"]) for p, c in rec["checks"].items()}
        json.dump(meta, open(os.path.join(dst, "meta.json"), "w"), indent=1)
        print("kept", dst, {p: (1 if c["violation"] else 0) for p, c in rec["checks"].items()}, {p: "NFI" for p, c in rec["checks"].items() if "no-failing" in c["violation"]})
        i += 2
    else:
        i += 1
