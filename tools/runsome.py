#!/venv/bin/python
"""run the checks of the given properties: runsome.py <tier> C01 C02 ..."""
import json, subprocess, sys, time, os
HERE = os.path.dirname(os.path.dirname(os.path.abspath(__file__)))
tier, ids = sys.argv[1], sys.argv[2:]
bad = 0
for pid in ids:
    t0 = time.time()
    p = subprocess.run("/venv/bin/python checks/check.py %s --tier %s" % (pid, tier), shell=True, cwd=HERE, stdout=subprocess.PIPE, stderr=subprocess.STDOUT, text=True)
    lines = [l for l in p.stdout.split("\n") if l and "WARNING conda" not in l]
    print(pid, "rc=%d" % p.returncode, "%.0fs" % (time.time() - t0), "|", lines[-1][:160] if lines else "", flush=True)
    for l in lines:
        if l.startswith("VIOLATION"):
            print("    ", l[:200], flush=True)
    bad += p.returncode != 0
sys.exit(1 if bad else 0)
