#!/venv/bin/python
"""print the table of DESIGN.md section 8 from seeded/*/meta.json"""
import json, glob, os, collections
rows = collections.defaultdict(lambda: dict(inp=[], nfi=[], missed=[]))
for d in sorted(glob.glob("/verif/seeded/*")):
    pid, k = os.path.basename(d).split("-")
    m = json.load(open(os.path.join(d, "meta.json")))
    c = m["checks"][pid]
    if not c["detected"]:
        rows[pid]["missed"].append(k)
    elif "no-failing-input-found" in c["line"]:
        rows[pid]["nfi"].append(k)
    else:
        rows[pid]["inp"].append(k)
print("| property | seeds | caught with a failing input | caught, `no-failing-input-found` | missed |")
print("|---|---|---|---|---|")
tot = [0, 0, 0, 0]
NOTE = {("C02", "m3"): " (needs distinct objects that compare equal; the harness's items never compare equal)"}
for pid in sorted(rows):
    r = rows[pid]
    n = len(r["inp"]) + len(r["nfi"]) + len(r["missed"])
    tot = [tot[0] + n, tot[1] + len(r["inp"]), tot[2] + len(r["nfi"]), tot[3] + len(r["missed"])]
    f = lambda l: ", ".join(x + NOTE.get((pid, x), "") for x in l) or "–"
    print("| %s | %d | %s | %s | %s |" % (pid, n, f(r["inp"]), f(r["nfi"]), f(r["missed"])))
print("| **all** | **%d** | **%d** | **%d** | **%d** |" % tuple(tot))
