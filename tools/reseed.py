#!/venv/bin/python
"""Re-confirm every kept seed against /repo's current HEAD and refresh seeded/*/meta.json:
   for each seeded/<ID>-m<k>: scratch worktree at HEAD, demo before/after the patch, the test suite on
   the worktree's sources, the property's quick check with VERIF_REPO=<worktree>."""
import os, sys, glob, json, subprocess, shutil, collections
V = "/verif"
head = subprocess.run("git -C /repo rev-parse HEAD", shell=True, stdout=subprocess.PIPE, text=True).stdout.strip()
wt = "/tmp/reseed_wt"
subprocess.run("git -C /repo worktree remove --force %s 2>/dev/null; git -C /repo worktree add -q --detach %s %s" % (wt, wt, head), shell=True)
stage = "/tmp/reseed_stage"
only = sys.argv[1:]
for d in sorted(glob.glob(V + "/seeded/*")):
    name = os.path.basename(d)
    pid, k = name.split("-")
    if only and pid not in only:
        continue
    shutil.rmtree(stage, ignore_errors=True)
    os.makedirs(stage)
    shutil.copytree(d, os.path.join(stage, k))
    p = subprocess.run("/venv/bin/python %s/tools/seedtest.py %s %s | /venv/bin/python %s/tools/keepseeds.py" % (V, stage, wt, V),
                       shell=True, stdout=subprocess.PIPE, stderr=subprocess.STDOUT, text=True)
    print(name, [l for l in p.stdout.split("\n") if l and "WARNING" not in l][-1][:200], flush=True)
subprocess.run("git -C /repo worktree remove --force %s" % wt, shell=True)
subprocess.run("git -C %s clean -fdq replays" % V, shell=True)
