"""line coverage of /repo/src/factorysimpy under the harness streams (single process, modest sizes)"""
import sys, os, random, json
sys.path.insert(0, "/verif"); sys.path.insert(0, "/verif/checks")
os.environ.setdefault("PYTHONHASHSEED", "0")
import coverage
cov = coverage.Coverage(include=["/repo/src/factorysimpy/*"], data_file="/tmp/verif_cov_data")
cov.start()
from harness import common, l1, storep, storeb, tbuffer, tfleet, belt, factory, storeq
rng = random.Random(7)
N = int(sys.argv[1]) if len(sys.argv) > 1 else 60
# store level
for (model, kind) in l1.CLASSES:
    for i in range(N):
        c = l1.gen(rng, model, kind, rng.randrange(8, 60), i % 3 == 0)
        try: l1.impl_run(c)
        except Exception as ex: print("l1", model, kind, type(ex).__name__)
for i in range(N):
    storep.run_real(rng, 40)
for mod in (tbuffer, tfleet):
    for i in range(N):
        c = mod.gen_case(rng, rng.randrange(10, 60))
        try: mod.run_impl(c)
        except Exception as ex: print(mod.__name__, type(ex).__name__)
for i in range(2 * N):
    c = belt.gen_case(rng)
    try: belt.run_impl(c)
    except Exception as ex: print("belt", type(ex).__name__)
for i in range(N // 3):
    for g in (belt.gen_odd_length, belt.gen_real_case):
        try: belt.run_impl(g(rng))
        except Exception as ex: print("belt2", type(ex).__name__)
gens = [lambda: factory.gen_config(rng, with_fleet=True), lambda: factory.gen_config_sc(rng), lambda: factory.gen_config_conv(rng),
        lambda: factory.gen_config_lazy(rng), lambda: factory.gen_invalid(rng)]
for i in range(3 * N):
    c = gens[i % len(gens)]()
    try: factory.run_impl(c)
    except Exception as ex: print("factory", type(ex).__name__, str(ex)[:80])
try:
    for i in range(N):
        c = storeq.gen_case(rng, 30) if hasattr(storeq, "gen_case") else None
        if c: storeq.run_impl(c)
except Exception as ex:
    print("storeq", type(ex).__name__, str(ex)[:80])
cov.stop(); cov.save()
import io
buf = io.StringIO()
cov.report(file=buf, show_missing=True)
open("/verif/build/coverage_report.txt", "w").write(buf.getvalue())
print(buf.getvalue()[-3000:])
