#!/venv/bin/python
"""run every registered check (quick by default) on /repo and validate the evidence files"""
import json, subprocess, sys, time, os
HERE = os.path.dirname(os.path.dirname(os.path.abspath(__file__)))
tier = sys.argv[1] if len(sys.argv) > 1 else "quick"
m = json.load(open(HERE + "/MANIFEST.json"))
bad = 0
for c in m["checks"]:
    cmd = c["quick_cmd"] if tier == "quick" else c["thorough_cmd"]
    t0 = time.time()
    p = subprocess.run(cmd, shell=True, cwd=HERE, stdout=subprocess.PIPE, stderr=subprocess.STDOUT, text=True)
    lines = [l for l in p.stdout.split("\n") if l and "WARNING conda" not in l]
    print(c["property_id"], "rc=%d" % p.returncode, "%.0fs" % (time.time() - t0), "|", lines[-1][:160] if lines else "")
    for l in lines:
        if l.startswith(("VIOLATION", "KNOWN-FINDING")):
            print("    ", l[:200])
    bad += p.returncode != 0
v = subprocess.run("python3-vt - <<'EOF2'\nimport json, jsonschema, glob\ns = json.load(open('/root/.vp/EVIDENCE.schema.json'))\nfor f in sorted(glob.glob('%s/evidence/*.json')):\n    e = json.load(open(f)); jsonschema.validate(e, s)\n    assert e['coverage']['discharged'] == e['coverage']['obligations'] >= 1, f\nm = json.load(open('%s/MANIFEST.json')); jsonschema.validate(m, json.load(open('/root/.vp/MANIFEST.schema.json')))\nprint('evidence + manifest valid')\nEOF2" % (HERE, HERE), shell=True, stdout=subprocess.PIPE, stderr=subprocess.STDOUT, text=True)
print(v.stdout[-600:])
sys.exit(1 if bad else 0)
