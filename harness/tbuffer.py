"""C11 correspondence: the real `Buffer` edge (edges/buffer.py over BufferStore) against the timed
model coq/theories/Edges/TBuffer.v and the regenerated can_put / can_get / occupancy fragments.
The harness is the scheduler; kernel pops are translated into FIRE i (an item's timer expired) and
IDLE d (the clock moved); PROBE queries can_put()/can_get()/occupancy() and is followed by probe
reservations (RPUT;CPUT / RGET;CGET) so that "true exactly when a reservation issued at that
instant would be granted immediately" is checked literally."""
import random, simpy, itertools
from . import common

FOREIGN = 1000


class Obj:
    def __init__(self, i):
        self.i = i
        self.id = "it%d" % i

    def __repr__(self):
        return "O%d" % self.i


def oid(x):
    if isinstance(x, tuple):
        x = x[0]
    return x.i if isinstance(x, Obj) else -1


class Impl:
    def __init__(self, case):
        m = common.load("edges.buffer")
        self.env = simpy.Environment()
        self.draws = 0
        self.pending_delay = [0]
        src = case["delay_source"]
        if src == "const":
            d = case["const_delay"]
        elif src == "callable":
            def d():
                self.draws += 1
                return self.pending_delay[0]
        else:
            def g():
                while True:
                    self.draws += 1
                    yield self.pending_delay[0]
            d = g()
        self.buf = m.Buffer(self.env, "B", capacity=case["cap"], delay=d, mode=case["mode"])
        self.buf.src_node = object()
        self.buf.dest_node = object()
        self.st = self.buf.inbuiltstore
        self.callers, self.toks, self.tokid, self.foreign = {}, [], {}, {}

    def caller(self, p):
        return self.callers.setdefault(p, ("proc", p))

    def ev(self, t):
        if t < len(self.toks):
            return self.toks[t]
        return self.foreign.setdefault(t, self.env.event())

    def ids(self, evs):
        return ",".join(str(self.tokid.get(id(e), -1)) for e in evs)

    def state(self):
        st = self.st
        getres = ",".join("%d:%d" % (self.tokid.get(id(e), -1), oid(it))
                          for e, it in zip(st.reserved_events, st.reserved_items))
        return "|".join([",".join(str(oid(x)) for x in st.items), ",".join(str(oid(x)) for x in st.ready_items),
                         self.ids(st.reserve_put_queue), self.ids(st.reservations_put),
                         self.ids(st.reserve_get_queue), getres, str(int(self.env.now))])

    def trig_order(self, before):
        eid = {id(q[3]): q[2] for q in self.env._queue}
        new = [i for i, e in enumerate(self.toks) if e.triggered and not before[i]]
        new.sort(key=lambda i: eid.get(id(self.toks[i]), -1))
        return ",".join(str(i) for i in new)

    def api(self, op):
        buf, env = self.buf, self.env
        k = op[0]
        before = [e.triggered for e in self.toks]
        try:
            if k in ("RPUT", "RGET"):
                env._active_proc = self.caller(op[1])
                e = buf.reserve_put() if k == "RPUT" else buf.reserve_get()
                self.tokid[id(e)] = len(self.toks)
                self.toks.append(e)
                before.append(False)
                res = "tok:%d" % (len(self.toks) - 1)
            elif k == "PUT":
                env._active_proc = self.caller(op[1])
                self.pending_delay[0] = op[4]
                r = buf.put(self.ev(op[2]), Obj(op[3]))
                res = "ok" if r else "ret:%r" % (r,)
            elif k == "GET":
                env._active_proc = self.caller(op[1])
                r = buf.get(self.ev(op[2]))
                res = "item:%d" % oid(r)
            elif k == "CPUT":
                env._active_proc = self.caller(0)
                r = buf.reserve_put_cancel(self.ev(op[1]))
                res = "ok" if r else "ret:%r" % (r,)
            elif k == "CGET":
                env._active_proc = self.caller(0)
                r = buf.reserve_get_cancel(self.ev(op[1]))
                res = "ok" if r else "ret:%r" % (r,)
            elif k == "PROBE":
                res = "probe:%s,%s,%d" % (str(bool(buf.can_put())).lower(), str(bool(buf.can_get())).lower(), buf.occupancy())
            else:
                raise AssertionError(k)
        except Exception as ex:  # noqa
            res = "err:" + type(ex).__name__
        finally:
            env._active_proc = None
        return res, self.trig_order(before)

    def pop(self):
        st = self.st
        ready_before = [id(x) for x in st.ready_items]
        before = [e.triggered for e in self.toks]
        err = None
        try:
            self.env.step()
        except Exception as ex:  # noqa
            err = "err:" + type(ex).__name__
        seen = set(ready_before)
        mops = [("FIRE", oid(x)) for x in st.ready_items if id(x) not in seen]
        return mops, self.trig_order(before), err


def run_impl(case):
    im = Impl(case)
    micro, rows, mops = [], [], []

    def pop():
        nxt = im.env.peek()
        if nxt > im.env.now:
            d = int(nxt - im.env.now)
            st = im.state().rsplit("|", 1)[0] + "|" + str(int(nxt))
            micro.append(("IDLE", d))
            rows.append(("ok", "", st))
            mops.append([("IDLE", d)])
        m, trig, err = im.pop()
        micro.append(("POP",))
        rows.append((err or "ok", trig, im.state()))
        mops.append(m)
        return err

    for op in case["ops"]:
        op = tuple(op)
        k = op[0]
        if k == "STEP":
            if im.env.peek() == im.env.now:
                pop()
        elif k == "ADV":
            target = im.env.now + op[1]
            err = None
            while err is None and im.env.peek() <= target:
                err = pop()
            if err is None and target > im.env.now:
                d = int(target - im.env.now)
                im.env.run(until=target)
                micro.append(("IDLE", d))
                rows.append(("ok", "", im.state()))
                mops.append([("IDLE", d)])
        else:
            res, trig = im.api(op)
            micro.append(op)
            rows.append((res, trig, im.state()))
            if k == "PUT":
                d = case["const_delay"] if case["delay_source"] == "const" else op[4]
                mops.append([("TPUT", op[1], op[2], op[3], d)])
            elif k in ("RPUT", "RGET"):
                mops.append([(k, op[1], 0)])
            else:
                mops.append([op])
    return micro, rows, mops, im


def model_text(case, mops):
    out = ["CASE tbuffer %s %d" % (case["mode"], case["cap"])]
    for grp in mops:
        for m in grp:
            out.append(" ".join(str(x) for x in m))
    out.append("END")
    return "\n".join(out) + "\n"


FIELDS = ("items", "ready", "putq", "putres", "getq", "getres", "clock")


def split(row):
    res, trig, st = row
    d = {"res": res, "trig": trig}
    if st is not None:
        f = st.split("|")
        for i, n in enumerate(FIELDS):
            d[n] = f[i] if i < len(f) else ""
    return d


def model_rows(lines, mops):
    rows, i = [], 0
    for grp in mops:
        if not grp:
            rows.append(None)       # no model op: nothing to compare
            continue
        f = lines[i].split("|")
        i += 1
        if f[0] == "ILLEGAL":
            rows.append({"res": "ILLEGAL"})
            continue
        if f[0].startswith("probe:"):
            rows.append({"res": f[0], "trig": "", **{n: f[2 + j] for j, n in enumerate(FIELDS)}})
        else:
            rows.append({"res": f[0], "trig": f[1], **{n: f[2 + j] for j, n in enumerate(FIELDS)}})
    return rows


def compare(irows, mrows):
    for i, (a, b) in enumerate(zip(irows, mrows)):
        if b is None:
            continue
        da = split(a)
        keys = [k for k in da if k in b or k in ("res", "trig")]
        diff = [k for k in keys if da.get(k, "") != b.get(k, "")]
        if diff:
            return (i, sorted(diff), da, b)
    return None


def run_batch(cases):
    prepared, text = [], []
    for c in cases:
        micro, rows, mops, im = run_impl(c)
        prepared.append((c, micro, rows, mops, im.draws))
        text.append(model_text(c, mops))
    outs = common.run_driver("".join(text))
    res = []
    for (c, micro, rows, mops, draws), lines in zip(prepared, outs):
        mrows = model_rows(lines, mops)
        res.append(dict(case=c, micro=micro, impl=[split(r) for r in rows], model=mrows, dis=compare(rows, mrows),
                        draws=draws))
    return res


# ------------------------------------------------------------------ oracle (search for failing inputs)

def oracle(case, micro, rows, draws):
    """C11 on the implementation trace: not retrievable before put time + delay, out of transit
    once the clock has passed it, can_put/can_get == immediate grant, occupancy, one draw per put"""
    viol = []
    due, nput = {}, 0
    clock = 0
    for i, (op, r) in enumerate(zip(micro, rows)):
        k = op[0]
        if r.get("clock", "") != "":
            newclock = int(r["clock"])
        else:
            newclock = clock
        if k == "IDLE":
            # about to leave instant `clock`: everything due must have left transit
            prev = rows[i - 1] if i else None
            if prev and prev.get("items") is not None:
                for x in [int(v) for v in prev["items"].split(",") if v]:
                    if x in due and due[x] <= clock:
                        viol.append((i, "item %d (due %d) still in transit when the clock leaves %d" % (x, due[x], clock)))
        if k == "PUT" and r["res"] == "ok":
            nput += 1
            due[op[3]] = clock + (case["const_delay"] if case["delay_source"] == "const" else op[4])
        if k == "GET" and r["res"].startswith("item:"):
            x = int(r["res"][5:])
            if x in due and clock < due[x]:
                viol.append((i, "item %d retrieved at %d before put time + delay = %d" % (x, clock, due[x])))
        if r.get("ready") is not None and r.get("ready") != "":
            for x in [int(v) for v in r["ready"].split(",") if v]:
                if x in due and newclock < due[x]:
                    viol.append((i, "item %d ready at %d before put time + delay = %d" % (x, newclock, due[x])))
        if k == "PROBE" and r["res"].startswith("probe:"):
            cp, cg, occ = r["res"][6:].split(",")
            n = len([v for v in r["items"].split(",") if v]) + len([v for v in r["ready"].split(",") if v])
            if int(occ) != n:
                viol.append((i, "occupancy() = %s but %d items are inside" % (occ, n)))
            # the probe reservations follow
            j = i + 1
            if j < len(micro) and micro[j][0] == "RPUT" and rows[j]["res"].startswith("tok:"):
                granted = rows[j]["res"][4:] in rows[j]["trig"].split(",")
                if (cp == "true") != granted:
                    viol.append((i, "can_put() = %s but a reservation issued now is %s" % (cp, "granted" if granted else "not granted")))
            j = i + 3
            if j < len(micro) and micro[j][0] == "RGET" and rows[j]["res"].startswith("tok:"):
                granted = rows[j]["res"][4:] in rows[j]["trig"].split(",")
                if (cg == "true") != granted:
                    viol.append((i, "can_get() = %s but a reservation issued now is %s" % (cg, "granted" if granted else "not granted")))
        clock = newclock
    if case["delay_source"] != "const" and draws != nput:
        viol.append((len(micro) - 1, "delay source consulted %d times for %d puts" % (draws, nput)))
    return viol


def tags(case, micro, rows):
    t = set()
    for op, r in zip(micro, rows):
        if op[0] == "PROBE":
            t.add("probe:" + r["res"][6:].rsplit(",", 1)[0])
        if op[0] == "POP" and r.get("trig"):
            t.add("timer-grant")
        if op[0] == "PUT" and r["res"] == "ok" and op[4] == 0:
            t.add("zero-delay")
        if r.get("putq"):
            t.add("waiting-put")
        if r.get("getq"):
            t.add("waiting-get")
    return t


def gen_case(rng, n_ops):
    case = dict(model="tbuffer", cap=rng.choice([1, 1, 2, 2, 3, 4]), mode=rng.choice(["FIFO", "LIFO"]),
                delay_source=rng.choice(["const", "callable", "generator"]), const_delay=rng.choice([0, 1, 2, 3]))
    im = Impl(case)
    ops, nprocs, nextitem = [], rng.choice([1, 2, 3]), [0]
    delays = rng.choice([[0], [0, 1], [1, 2, 3], [0, 0, 5], [2]])

    def tokens_in(lst):
        return [im.tokid[id(e)] for e in lst if id(e) in im.tokid]

    def do(op):
        ops.append(op)
        if op[0] == "STEP":
            if im.env.peek() == im.env.now:
                im.pop()
        elif op[0] == "ADV":
            target = im.env.now + op[1]
            while im.env.peek() <= target:
                im.env.step()
            if target > im.env.now:
                im.env.run(until=target)
        else:
            return im.api(op)

    while len(ops) < n_ops:
        st = im.st
        granted_put, granted_get = tokens_in(st.reservations_put), tokens_in(st.reservations_get)
        pend_put, pend_get = tokens_in(st.reserve_put_queue), tokens_in(st.reserve_get_queue)
        choices = [("RPUT", 5), ("RGET", 5), ("STEP", 4), ("ADV", 4), ("PROBE", 5)]
        if granted_put:
            choices.append(("PUT", 9))
        if granted_get:
            choices.append(("GET", 5))
        if granted_put or pend_put:
            choices.append(("CPUT", 2))
        if granted_get or pend_get:
            choices.append(("CGET", 3))
        k = rng.choices([c for c, _ in choices], [w for _, w in choices])[0]
        try:
            if k == "RPUT":
                do(("RPUT", rng.randrange(nprocs)))
            elif k == "RGET":
                do(("RGET", rng.randrange(nprocs)))
            elif k == "PUT":
                t = rng.choice(granted_put)
                nextitem[0] += 1
                do(("PUT", im.toks[t].requesting_process[1], t, nextitem[0], rng.choice(delays)))
            elif k == "GET":
                t = rng.choice(granted_get)
                do(("GET", im.toks[t].requesting_process[1], t))
            elif k == "CPUT":
                do(("CPUT", rng.choice(granted_put + pend_put + pend_put)))
            elif k == "CGET":
                do(("CGET", rng.choice(granted_get + granted_get + pend_get)))
            elif k == "STEP":
                do(("STEP",))
            elif k == "ADV":
                do(("ADV", rng.choice([1, 1, 2, 3, 5])))
            else:
                do(("PROBE",))
                res, _ = do(("RPUT", 0))
                do(("CPUT", int(res[4:])))
                res, _ = do(("RGET", 0))
                do(("CGET", int(res[4:])))
        except Exception:  # noqa
            break
    case["ops"] = [list(o) for o in ops]
    return case


def run_real(rng):
    """The Buffer edge with decimal delays (0.125, 1/3, 1.005, ... -- not multiples of anything convenient): the implementation
    alone.  An item put at t with drawn delay d is not among the ready items at any instant before t + d and is among them once the
    events of t + d have run (unless taken).  Returns (case, violation message or None)."""
    m = common.load("edges.buffer")
    env = simpy.Environment()
    vals = [rng.choice([0.125, 1 / 3, 1.005, 0.996, 0.0049, 0.07, 2.5, 0.3, 1.1]) for _ in range(rng.randrange(1, 5))]
    style = rng.choice(["const", "callable", "generator"])
    drawn = []
    cyc = itertools.cycle(vals)

    def draw():
        v = next(cyc)
        drawn.append(v)
        return v
    if style == "const":
        d = vals[0]
    elif style == "callable":
        d = draw
    else:
        def g():
            while True:
                yield draw()
        d = g()
    cap = rng.choice([2, 3, 5])
    buf = m.Buffer(env, "B", capacity=cap, delay=d, mode=rng.choice(["FIFO", "LIFO"]))
    buf.src_node, buf.dest_node = object(), object()
    st = buf.inbuiltstore
    gaps = [rng.choice([0, 0.1, 0.25, 0.7, 1.3]) for _ in range(rng.randrange(2, 7))]
    case = dict(model="tbuffer-real", cap=cap, style=style, vals=vals, gaps=gaps)
    puts = []          # (object, put time, delay drawn for it)

    class O:
        id = "x"

    def producer():
        for g_ in gaps:
            yield env.timeout(g_)
            ev = buf.reserve_put()
            yield ev
            o = O()
            k = len(drawn)
            buf.put(ev, o)
            puts.append((o, env.now, vals[0] if style == "const" else (drawn[k] if len(drawn) > k else None)))
    env.process(producer())
    bad = None
    try:
        while env.peek() < 40 and bad is None:
            env.step()
            if env.peek() > env.now:          # the instant is over
                for (o, t, dd) in puts:
                    if dd is None:
                        bad = "no delay was drawn for an item put at %r" % t
                    ready = any(o is x for x in st.ready_items)
                    if ready and env.now < t + dd:
                        bad = "an item put at %r with delay %r is available at %r, before %r" % (t, dd, env.now, t + dd)
                    if not ready and env.now >= t + dd:
                        bad = "an item put at %r with delay %r is still not available at %r" % (t, dd, env.now)
    except Exception as ex:  # noqa
        bad = "run raised %s" % type(ex).__name__
    return case, bad
