"""Correspondence harness for the positional stores (ReservableReqStore,
ReservablePriorityReqStore, ReservablePriorityReqFilterStore) against coq/theories/Stores/StoreP.v.

The harness itself is the scheduler: it holds one real store under a real simpy.Environment and
executes an op list from outside any process (env._active_proc is set to the calling "process"
object, so the ownership checks are real); STEP / ADV ops pop kernel events.  Every harness op is
mapped to the model ops it amounts to (an API call is one model op; a kernel pop is Tick and/or
Retrig), and after every harness op the canonical state line of both sides is compared."""
import random, simpy
from . import common

KINDS = {"req": ("base.reservable_req_store", "ReservableReqStore"),
         "prio": ("base.reservable_priority_req_store", "ReservablePriorityReqStore"),
         "filter": ("base.reservable_priority_req_filter_store", "ReservablePriorityReqFilterStore")}
FOREIGN = 1000  # token ids >= FOREIGN denote events that do not belong to the store


class It:
    __slots__ = ("i", "put_time")

    def __init__(self, i):
        self.i = i
        self.put_time = None

    def __repr__(self):
        return "It%d" % self.i


def item_id(x):
    return x.i if isinstance(x, It) else x


def mkfilter(k, r):
    if k == 0:
        return None
    return lambda x, k=k, r=r: x.i % k == r


class Impl:
    """one real store driven op by op"""

    def __init__(self, kind, cap, tdelay):
        mod, cls = KINDS[kind]
        m = common.load(mod)
        self.kind = kind
        self.env = simpy.Environment()
        if kind == "filter":
            self.st = getattr(m, cls)(self.env, capacity=cap, trigger_delay=tdelay)
        else:
            self.st = getattr(m, cls)(self.env, capacity=cap)
        self.callers = {}
        self.toks = []          # token id -> event
        self.tokid = {}         # id(event) -> token id
        self.foreign = {}
        self.retrigs = 0
        self.default_filter = set()
        st = self.st
        if kind == "filter":
            # count top-level calls of the timer callback (bound method captured at put time)
            orig = st._trigger_reserve_get
            outer = self

            def wrapped(ev, _orig=orig):
                if outer.in_step:
                    outer.retrigs += 1
                return _orig(ev)
            st._trigger_reserve_get = wrapped
        self.in_step = False

    def caller(self, p):
        return self.callers.setdefault(p, ("proc", p))

    def ev(self, t):
        if t < len(self.toks):
            return self.toks[t]
        return self.foreign.setdefault(t, self.env.event())

    def ids(self, evs):
        return ",".join(str(self.tokid.get(id(e), -1)) for e in evs)

    def state_extra(self):
        try:
            return self.state()
        except Exception:  # noqa
            return ""

    def state(self):
        st = self.st
        its = list(st.items)
        extra = ""
        if [id(e) for e in st.reservations_get] != [id(e) for e in st.reserved_events]:
            extra = "|reserved_events!=reservations_get:" + self.ids(st.reserved_events)
        if self.kind == "filter" and st.reserve_get_queue and self.env.peek() > self.env.now \
                and len(st.reservations_get) < len(its):
            # the instant is over (the store's own maturity timer, due now at the latest, has run): the request that is
            # next in line is still waiting although an unreserved item satisfies its filter -- read by the oracle
            # (C04), not part of the model's state
            head = st.reserve_get_queue[0]
            try:
                # a request without a filter of its own waits for an item whose delay has elapsed on the kernel's clock --
                # judged here by the instant the store's own maturity timer is due (put time + trigger delay), not by
                # asking the store's filter
                if id(head) in self.default_filter:
                    ok = any(self.env.now >= x.put_time + st.trigger_delay for x in its[len(st.reserved_events):]
                             if getattr(x, "put_time", None) is not None)
                else:
                    ok = any(head.filter(x) for x in its[len(st.reserved_events):])
                if ok:
                    extra += "|stuck-get"
            except Exception:  # noqa
                pass
        pt = ",".join(str(int(x.put_time)) if isinstance(x, It) and x.put_time is not None else "0" for x in its)
        return "|".join([",".join(str(item_id(x)) for x in its), self.ids(st.reserve_put_queue),
                         self.ids(st.reservations_put), self.ids(st.reserve_get_queue),
                         self.ids(st.reservations_get), pt, str(int(self.env.now))]) + extra

    def trig_order(self, before):
        """tokens newly triggered, in the order in which they were triggered (= kernel schedule order)"""
        eid = {id(q[3]): q[2] for q in self.env._queue}
        new = [i for i, e in enumerate(self.toks) if e.triggered and not before[i]]
        new.sort(key=lambda i: eid.get(id(self.toks[i]), -1))
        return ",".join(str(i) for i in new)

    def api(self, op):
        """returns (result string, model op words)"""
        st, env = self.st, self.env
        k = op[0]
        before = [e.triggered for e in self.toks]
        try:
            if k in ("RPUT", "RGET"):
                env._active_proc = self.caller(op[1])
                if k == "RPUT":
                    e = st.reserve_put() if self.kind == "req" else st.reserve_put(op[2])
                elif self.kind == "req":
                    e = st.reserve_get()
                elif self.kind == "prio":
                    e = st.reserve_get(op[2])
                else:
                    e = st.reserve_get(op[2], mkfilter(op[3], op[4]))
                    if op[3] == 0:
                        self.default_filter.add(id(e))
                self.tokid[id(e)] = len(self.toks)
                self.toks.append(e)
                before.append(False)
                res = "tok:%d" % (len(self.toks) - 1)
            elif k == "PUT":
                env._active_proc = self.caller(op[1])
                obj = It(op[3]) if self.kind == "filter" else op[3]
                r = st.put(self.ev(op[2]), obj)
                res = "ok" if r else "ret:%r" % (r,)
            elif k == "GET":
                env._active_proc = self.caller(op[1])
                r = st.get(self.ev(op[2]))
                res = "item:%s" % item_id(r)
            elif k == "CPUT":
                env._active_proc = self.caller(0)
                r = st.reserve_put_cancel(self.ev(op[1]))
                res = "ok" if r else "ret:%r" % (r,)
            elif k == "CGET":
                env._active_proc = self.caller(0)
                r = st.reserve_get_cancel(self.ev(op[1]))
                res = "ok" if r else "ret:%r" % (r,)
            else:
                raise AssertionError(k)
        except Exception as ex:  # noqa
            res = "err:" + type(ex).__name__
        finally:
            env._active_proc = None
        trig = self.trig_order(before)
        return res, trig

    def pop(self):
        """process one kernel event; returns model ops (TICK/RETRIG) it amounts to"""
        env = self.env
        t0 = env.now
        self.retrigs = 0
        self.in_step = True
        before = [e.triggered for e in self.toks]
        err = None
        try:
            env.step()
        except Exception as ex:  # noqa
            err = "err:" + type(ex).__name__
        self.in_step = False
        mops = []
        if env.now != t0:
            mops.append(("TICK", int(env.now - t0)))
        mops += [("RETRIG",)] * self.retrigs
        trig = self.trig_order(before)
        return mops, trig, err


def run_impl(kind, cap, tdelay, ops):
    """Returns (micro_ops, rows, mops, impl), one entry per micro op: an API call, one kernel
    pop (("POP",)) or a pure time advance (("IDLE", d))."""
    im = Impl(kind, cap, tdelay)
    micro, rows, mops = [], [], []

    def pop():
        m, trig, err = im.pop()
        micro.append(("POP",))
        rows.append((err or "ok", trig, im.state()))
        mops.append(m)
        return err

    for op in ops:
        k = op[0]
        if k == "STEP":
            if im.env.peek() == im.env.now:
                pop()
        elif k == "ADV":
            target = im.env.now + op[1]
            err = None
            while err is None and im.env.peek() < target:
                err = pop()
            if err is None:
                t0 = im.env.now
                im.env.run(until=target)
                if target != t0:
                    micro.append(("IDLE", int(target - t0)))
                    rows.append(("ok", "", im.state()))
                    mops.append([("TICK", int(target - t0))])
        else:
            res, trig = im.api(op)
            micro.append(op)
            rows.append((res, trig, im.state()))
            mops.append([op])
    return micro, rows, mops, im


def model_text(kind, cap, tdelay, mops):
    out = ["CASE storep %s %d %d" % (kind, cap, tdelay)]
    for grp in mops:
        for m in grp:
            out.append(" ".join(str(x) for x in m))
    out.append("END")
    return "\n".join(out) + "\n"


def model_rows(lines, mops):
    """regroup model lines per harness op: (result, trig, state)"""
    rows, i, last_state = [], 0, "||||||0"
    for grp in mops:
        if not grp:
            rows.append(("ok", "", last_state))
            continue
        res, trigs = None, []
        for _ in grp:
            f = lines[i].split("|")
            i += 1
            res = f[0] if len(grp) == 1 else "ok"
            if f[1]:
                trigs.append(f[1])
            last_state = "|".join(f[2:])
        rows.append((res, ",".join(trigs), last_state))
    return rows


# ------------------------------------------------------------------ generation

def gen_case(rng, kind, n_ops, malformed=False):
    """Online generation: the next op is chosen by looking at the implementation's state, so
    sequences are mostly valid (reserve -> put/get with the granted token, cancels of pending and
    granted tokens, full/empty boundaries); `malformed` adds foreign / reused / wrong-owner tokens."""
    cap = rng.choice([1, 1, 2, 2, 3, 4, 6])
    tdelay = rng.choice([0, 0, 1, 2, 3]) if kind == "filter" else 0
    im = Impl(kind, cap, tdelay)
    ops, nprocs, nextitem = [], rng.choice([1, 2, 3, 4]), [-1]     # the first item is 0: a falsy object is an item like any other
    prios = rng.choice([[0], [0, 1], [-2, 0, 0, 3], [5, 5, 1], [-1, -1, -1, 2, 0]])
    used = []

    def tokens_in(lst):
        return [im.tokid[id(e)] for e in lst if id(e) in im.tokid]

    for _ in range(n_ops):
        st = im.st
        granted_put = tokens_in(st.reservations_put)
        granted_get = tokens_in(st.reservations_get)
        pend_put, pend_get = tokens_in(st.reserve_put_queue), tokens_in(st.reserve_get_queue)
        choices = [("RPUT", 5), ("RGET", 5)]
        if granted_put:
            choices.append(("PUT", 8))
        if granted_get:
            choices.append(("GET", 6))
        if granted_put or pend_put:
            choices.append(("CPUT", 2))
        if granted_get or pend_get:
            choices.append(("CGET", 3))
        choices.append(("STEP", 3 if kind == "filter" else 1))
        choices.append(("ADV", 2 if kind == "filter" else 1))
        if malformed:
            choices.append(("BAD", 6))
        k = rng.choices([c for c, _ in choices], [w for _, w in choices])[0]
        if k == "RPUT":
            op = ("RPUT", rng.randrange(nprocs), rng.choice(prios))
        elif k == "RGET":
            if kind == "filter":
                fk = rng.choice([0, 0, 1, 2, 2, 3])
                fr = rng.randrange(fk) if fk else 0
            else:
                fk, fr = 1, 0
            op = ("RGET", rng.randrange(nprocs), rng.choice(prios), fk, fr)
        elif k == "PUT":
            t = rng.choice(granted_put)
            nextitem[0] += 1
            iid = nextitem[0] if kind == "filter" or rng.random() < 0.8 else rng.randrange(0, 4)
            op = ("PUT", im.toks[t].requesting_process[1], t, iid)
        elif k == "GET":
            t = rng.choice(granted_get)
            op = ("GET", im.toks[t].requesting_process[1], t)
        elif k == "CPUT":
            op = ("CPUT", rng.choice(granted_put + pend_put + pend_put))
        elif k == "CGET":
            op = ("CGET", rng.choice(granted_get + granted_get + pend_get))
        elif k == "STEP":
            op = ("STEP",)
        elif k == "ADV":
            op = ("ADV", rng.choice([1, 1, 2, 3, 5]))
        else:  # BAD
            every = list(range(len(im.toks)))
            bad = rng.choice(["foreign", "reuse", "wrongowner", "pending", "cancelled", "crossside"])
            t = FOREIGN + rng.randrange(3)
            if bad != "foreign" and every:
                t = rng.choice(used) if bad in ("reuse", "cancelled") and used else rng.choice(every)
            p = rng.randrange(nprocs + 1)
            kk = rng.choice(["PUT", "GET", "CPUT", "CGET"])
            if bad == "wrongowner" and rng.random() < 0.6:
                # a thief that holds a granted reservation of its own on the same side presents another
                # process's granted token
                side = rng.choice([("PUT", granted_put), ("GET", granted_get)])
                owners = {tk: im.toks[tk].requesting_process[1] for tk in side[1]}
                pairs = [(a, b) for a in owners for b in owners if owners[a] != owners[b]]
                if pairs:
                    victim, own = rng.choice(pairs)
                    kk, t, p = side[0], victim, owners[own]
            if kk == "PUT":
                nextitem[0] += 1
                op = ("PUT", p, t, nextitem[0])
            elif kk == "GET":
                op = ("GET", p, t)
            else:
                op = (kk, t)
        if op[0] in ("PUT", "GET", "CPUT", "CGET"):
            used.append(op[2] if op[0] in ("PUT", "GET") else op[1])
        ops.append(op)
        # execute on the live implementation so that the next choice sees the new state
        if op[0] == "STEP":
            if im.env.peek() == im.env.now:
                im.pop()
        elif op[0] == "ADV":
            target = im.env.now + op[1]
            try:
                while im.env.peek() < target:
                    im.env.step()
                im.env.run(until=target)
            except Exception:  # noqa
                break
        else:
            im.api(op)
    return dict(model="storep", kind=kind, cap=cap, tdelay=tdelay, ops=[list(o) for o in ops])


def replay_real(case):
    """re-run a recorded decimal-times history; returns the violation message or None"""
    im = Impl("filter", case["cap"], case["tdelay"])
    env, st = im.env, im.st
    for op in case["ops"]:
        op = tuple(op)
        try:
            if op[0] == "STEP":
                if env.peek() == env.now:
                    env.step()
            elif op[0] == "ADV":
                target = env.now + op[1]
                while env.peek() <= target:
                    env.step()
                if target > env.now:
                    env.run(until=target)
            else:
                print(op, im.api(op))
        except Exception as ex:  # noqa
            return "history raised %s" % type(ex).__name__
        print(op, "now=%r" % env.now, im.state_extra())
        if "stuck-get" in im.state_extra():
            return "at %r the retrieval request next in line is still pending although an unreserved item put at %s has been in the " \
                   "store for the trigger delay %s" % (env.now, [x.put_time for x in st.items[len(st.reserved_events):]], case["tdelay"])
    return None


def run_real(rng, n_ops):
    """The filter store under decimal (not exactly representable) put times and trigger delays: the implementation alone.
    After every step whose instant is over, the request next in line must not be waiting while an unreserved item's delay has
    elapsed.  Returns (case, violation message or None)."""
    cap = rng.choice([1, 2, 3, 4])
    tdelay = rng.choice([0.1, 0.3, 0.7, 1, 2, 3])
    im = Impl("filter", cap, tdelay)
    st, env = im.st, im.env
    ops, nextitem = [], 0
    for _ in range(n_ops):
        gp = [im.tokid[id(e)] for e in st.reservations_put if id(e) in im.tokid]
        gg = [im.tokid[id(e)] for e in st.reservations_get if id(e) in im.tokid]
        k = rng.choices(["RPUT", "RGET", "PUT", "GET", "ADV", "STEP"], [4, 5, 8 if gp else 0, 4 if gg else 0, 6, 3])[0]
        if k == "RPUT":
            op = ("RPUT", 0, 0)
        elif k == "RGET":
            op = ("RGET", 0, 0, 0, 0)
        elif k == "PUT":
            nextitem += 1
            op = ("PUT", 0, rng.choice(gp), nextitem)
        elif k == "GET":
            op = ("GET", 0, rng.choice(gg))
        elif k == "ADV":
            op = ("ADV", rng.choice([0.1, 0.2, 0.3, 0.7, 1.1, 1.3, 2.9, 0.4]))
        else:
            op = ("STEP",)
        ops.append(list(op))
        try:
            if k == "STEP":
                if env.peek() == env.now:
                    env.step()
            elif k == "ADV":
                target = env.now + op[1]
                while env.peek() <= target:
                    env.step()
                if target > env.now:
                    env.run(until=target)
            else:
                im.api(op)
        except Exception as ex:  # noqa
            return dict(model="storep-real", cap=cap, tdelay=tdelay, ops=ops), "history raised %s" % type(ex).__name__
        if "stuck-get" in im.state_extra():
            return dict(model="storep-real", cap=cap, tdelay=tdelay, ops=ops), \
                "at %r the retrieval request next in line is still pending although an unreserved item put at %s has been in the " \
                "store for the trigger delay %s" % (env.now, [x.put_time for x in st.items[len(st.reserved_events):]], tdelay)
    return dict(model="storep-real", cap=cap, tdelay=tdelay, ops=ops), None
