"""C01 / C02 / C04 on the implementation's own rows of one Buffer or Fleet EDGE history (harness/tbuffer.py,
harness/tfleet.py): the edge classes wrap the stores (can_put / can_get / occupancy / get_items ...), so the
store-level properties must also survive every call sequence that goes through the edge object.

rows: dicts with items / ready / putres / getres (comma separated ids), res; micro: the ops
  PUT|LOAD caller token item ..., GET caller token, RPUT, RGET, CPUT, CGET, PROBE, STEP, ADV, IDLE"""
from collections import Counter


def _ids(s):
    return [x for x in (s or "").split(",") if x != ""]


def check(case, micro, rows):
    out, put, got = [], Counter(), Counter()
    cap = case["cap"]
    prev = None
    for i, (op, r) in enumerate(zip(micro, rows)):
        items, ready = _ids(r.get("items")), _ids(r.get("ready"))
        k = op[0]
        res = r.get("res", "")
        if k in ("PUT", "LOAD"):
            tok = str(op[2])
            granted = prev is not None and tok in _ids(prev.get("putres"))
            if res == "ok":
                put[str(op[3])] += 1
            elif granted and res.startswith("err"):
                out.append(("C01", i, "put with the granted, unused reservation %s failed: %s" % (tok, res)))
        elif k == "GET":
            tok = str(op[2])
            granted = prev is not None and tok in _ids(prev.get("getres"))
            if res.startswith("item:"):
                x = res[5:]
                if put[x] - got[x] <= 0:
                    out.append(("C02", i, "get returned item %s, which %s" % (x, "was returned before" if put[x] else "was never put")))
                got[x] += 1
            elif granted and res.startswith("err"):
                out.append(("C02", i, "get with the granted, unused reservation %s failed: %s" % (tok, res)))
        if len(items) + len(ready) + len(_ids(r.get("putres"))) > cap:
            out.append(("C01", i, "edge holds %d items and %d granted space reservations, capacity %d" %
                        (len(items) + len(ready), len(_ids(r.get("putres"))), cap)))
        putq, getq = _ids(r.get("putq")), _ids(r.get("getq"))
        if putq and len(items) + len(ready) + len(_ids(r.get("putres"))) < cap:
            out.append(("C04", i, "space request(s) %s waiting on the edge with %d free, unreserved place(s)" %
                        (putq, cap - len(items) - len(ready) - len(_ids(r.get("putres"))))))
        if getq and len(ready) > len(_ids(r.get("getres"))):
            out.append(("C04", i, "retrieval request(s) %s waiting on the edge with %d available, unreserved item(s)" %
                        (getq, len(ready) - len(_ids(r.get("getres"))))))
        inside = Counter(items) + Counter(ready)
        if inside != put - got:
            out.append(("C02", i, "edge holds %s after %s, the puts and gets so far leave %s inside" %
                        (sorted(inside.elements()), "/".join(str(x) for x in op), sorted((put - got).elements()))))
        prev = r
        if len(out) > 4:
            break
    return out
