"""C20 on factories that contain conveyor edges.  The Gallina factory model has no conveyors (they are
verified as edges on their own, harness/belt.py), so these runs are not compared with a model: the
real classes are wired into small lines, run under the real kernel with a step budget, and the run
must end without an unhandled exception, with simulated time advancing, and with
received + discarded <= generated."""
import io, contextlib, random, simpy
from . import common


def gen_case(rng):
    shape = rng.choice(["s-c-k", "s-c-m-b-k", "s-b-m-c-k", "s-c-m-c-k", "ss-cb-m-k"])
    def conv():
        if rng.random() < 0.6:
            il = rng.choice([1, 0.5, 2])
            return dict(kind="cont", item_length=il, speed=rng.choice([1, 2, 0.5]), length=il * rng.choice([1, 2, 3, 4]), acc=rng.choice([0, 1]))
        return dict(kind="slot", cap=rng.choice([1, 2, 3, 4]), delay=rng.choice([1, 0.5, 2]), acc=rng.choice([0, 1]))
    return dict(model="convfactory", shape=shape, convs=[conv(), conv()],
                src_blocking=rng.choice([True, True, False]), m_blocking=rng.choice([True, True, False]),
                src_pol=rng.choice(["FIRST_AVAILABLE", "ROUND_ROBIN"]), m_in=rng.choice(["FIRST_AVAILABLE", "ROUND_ROBIN"]),
                m_out=rng.choice(["FIRST_AVAILABLE", "ROUND_ROBIN"]), wcap=rng.choice([1, 1, 2]),
                inter=rng.choice([0.5, 1, 2, 3]), proc=rng.choice([0, 1, 2, 4]), bcap=rng.choice([1, 2, 3]), T=rng.choice([20, 40]))


def run_impl(case):
    Source = common.load("nodes.source").Source
    Sink = common.load("nodes.sink").Sink
    Machine = common.load("nodes.machine").Machine
    Buffer = common.load("edges.buffer").Buffer
    Cont = common.load("edges.continuous_conveyor").ConveyorBelt
    Slot = common.load("edges.slotted_conveyor").ConveyorBelt
    for m in ("base.belt_store", "base.slotted_belt_store", "base.buffer_store", "nodes.node", "edges.edge"):
        common.load(m)
    env = simpy.Environment()
    out = dict(crash=None, generated=0, received=0, discarded=0, now=0.0)
    try:
        def mk_conv(i, name):
            c = case["convs"][i]
            if c["kind"] == "cont":
                return Cont(env, name, conveyor_length=c["length"], speed=c["speed"], item_length=c["item_length"], accumulating=c["acc"])
            return Slot(env, name, capacity=c["cap"], delay=c["delay"], accumulating=c["acc"])
        il = case["convs"][0].get("item_length", 1)

        def src(name):
            return Source(env, id=name, item_length=il, inter_arrival_time=case["inter"], blocking=case["src_blocking"], out_edge_selection=case["src_pol"])

        def mach(name):
            return Machine(env, id=name, processing_delay=case["proc"], work_capacity=case["wcap"], blocking=case["m_blocking"],
                           in_edge_selection=case["m_in"], out_edge_selection=case["m_out"])
        sh = case["shape"]
        srcs, sinks, machines = [], [], []
        if sh == "s-c-k":
            s, k = src("S"), Sink(env, id="K"); mk_conv(0, "C0").connect(s, k); srcs, sinks = [s], [k]
        elif sh == "s-c-m-b-k":
            s, m, k = src("S"), mach("M"), Sink(env, id="K")
            mk_conv(0, "C0").connect(s, m); Buffer(env, "B", capacity=case["bcap"], delay=0).connect(m, k); srcs, sinks, machines = [s], [k], [m]
        elif sh == "s-b-m-c-k":
            s, m, k = src("S"), mach("M"), Sink(env, id="K")
            Buffer(env, "B", capacity=case["bcap"], delay=0).connect(s, m); mk_conv(0, "C0").connect(m, k); srcs, sinks, machines = [s], [k], [m]
        elif sh == "s-c-m-c-k":
            s, m, k = src("S"), mach("M"), Sink(env, id="K")
            mk_conv(0, "C0").connect(s, m); mk_conv(1, "C1").connect(m, k); srcs, sinks, machines = [s], [k], [m]
        else:
            s1, s2, m, k = src("S1"), src("S2"), mach("M"), Sink(env, id="K")
            mk_conv(0, "C0").connect(s1, m); Buffer(env, "B", capacity=case["bcap"], delay=0).connect(s2, m)
            Buffer(env, "B2", capacity=case["bcap"], delay=0).connect(m, k); srcs, sinks, machines = [s1, s2], [k], [m]
        steps = 0
        with contextlib.redirect_stdout(io.StringIO()):
            while env.peek() <= case["T"]:
                env.step(); steps += 1
                if steps > 40000:
                    out["crash"] = "EXHAUSTED: no progress of simulated time within the step budget at t=%s" % env.now
                    break
        out["now"] = env.now
        out["generated"] = sum(x.stats.get("num_item_generated", 0) for x in srcs)
        out["received"] = sum(x.stats.get("num_item_received", 0) for x in sinks)
        out["discarded"] = sum(x.stats.get("num_item_discarded", 0) for x in srcs + machines)
    except Exception as ex:  # noqa
        import traceback
        tb = traceback.extract_tb(ex.__traceback__)
        where = next((f for f in reversed(tb) if "/factorysimpy/" in f.filename), tb[-1])
        out["crash"] = "%s: %s [%s:%s]" % (type(ex).__name__, str(ex)[:90], where.filename.split("/")[-1], where.name)
    return out


def oracle(case, out):
    """-> list of (clause tag, message)"""
    V = []
    if out["crash"]:
        c = out["crash"]
        tag = "conveyor-probe" if ("inp_buf" in c or "out_buf" in c) else ("livelock" if c.startswith("EXHAUSTED") else "crash")
        V.append((tag, "factory with a conveyor (%s, blocking source=%s machine=%s): %s" % (case["shape"], case["src_blocking"], case["m_blocking"], c)))
    elif out["received"] + out["discarded"] > out["generated"]:
        V.append(("count", "factory with a conveyor: received %d + discarded %d > generated %d" % (out["received"], out["discarded"], out["generated"])))
    return V
