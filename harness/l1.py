"""L1 correspondence: run the extracted store models and the real store classes on the same op
histories, compare canonical rows, and feed the implementation rows to the property oracles."""
import random, json, os, hashlib
from . import common, storep, storeb

CLASSES = [("storep", "req"), ("storep", "prio"), ("storep", "filter"), ("storeb", "buffer"), ("storeb", "fleet"),
           ("storeb", "belt"), ("storeb", "slot")]
P_FIELDS = ("items", "putq", "putres", "getq", "getres", "ptimes", "now")
B_FIELDS = ("items", "ready", "putq", "putres", "getq", "getres")


def fields_of(model):
    return P_FIELDS if model == "storep" else B_FIELDS


def gen(rng, model, kind, n_ops, malformed):
    if model == "storep":
        return storep.gen_case(rng, kind, n_ops, malformed)
    return storeb.gen_case(rng, kind, n_ops, malformed)


def impl_run(case):
    if case["model"] == "storep":
        micro, rows, mops, im = storep.run_impl(case["kind"], case["cap"], case["tdelay"], [tuple(o) for o in case["ops"]])
        text = storep.model_text(case["kind"], case["cap"], case["tdelay"], mops)
    else:
        micro, rows, mops, im = storeb.run_impl(case)
        text = storeb.model_text(case, mops)
    return micro, rows, mops, text


def model_rows(case, lines, mops):
    return storep.model_rows(lines, mops) if case["model"] == "storep" else storeb.model_rows(lines, mops)


def split_row(case, row):
    """row = (res, trig, 'f1|f2|...') -> dict"""
    res, trig, st = row
    f = st.split("|")
    names = fields_of(case["model"])
    d = {"res": res, "trig": trig}
    for i, n in enumerate(names):
        d[n] = f[i] if i < len(f) else ""
    if len(f) > len(names):
        d["extra"] = "|".join(f[len(names):])
    return d


def compare(case, irows, mrows):
    """first disagreement: (op index, field, impl value, model value) or None; also all fields that differ"""
    out = []
    for i, (a, b) in enumerate(zip(irows, mrows)):
        da, db = split_row(case, a), split_row(case, b)
        diff = [k for k in set(da) | set(db) if da.get(k, "") != db.get(k, "")]
        if diff:
            out.append((i, sorted(diff), da, db))
            break
    if not out and len(irows) != len(mrows):
        out.append((min(len(irows), len(mrows)), ["length"], {}, {}))
    return out


def run_batch(cases):
    """returns list of dict(case, micro, impl (row dicts), model (row dicts), dis (first disagreement|None))"""
    prepared, text = [], []
    for c in cases:
        micro, rows, mops, t = impl_run(c)
        prepared.append((c, micro, rows, mops))
        text.append(t)
    outs = common.run_driver("".join(text))
    res = []
    for (c, micro, rows, mops), lines in zip(prepared, outs):
        mrows = model_rows(c, lines, mops)
        dis = compare(c, rows, mrows)
        res.append(dict(case=c, micro=micro, impl=[split_row(c, r) for r in rows],
                        model=[split_row(c, r) for r in mrows], dis=dis[0] if dis else None))
    return res


def shrink(case, still_fails, budget=400):
    """delta-debug the op list (ops that refer to tokens keep their ids: removing a reserve op
    shifts ids, so we only try removing suffixes and single non-reserve ops)"""
    ops = list(case["ops"])
    n = [0]

    def test(o):
        n[0] += 1
        c = dict(case)
        c["ops"] = o
        try:
            return still_fails(c)
        except Exception:  # noqa
            return False
    # shortest failing prefix
    lo, hi = 1, len(ops)
    while lo < hi and n[0] < budget:
        mid = (lo + hi) // 2
        if test(ops[:mid]):
            hi = mid
        else:
            lo = mid + 1
    ops = ops[:hi]
    i = len(ops) - 2
    while i >= 0 and n[0] < budget:
        if ops[i][0] not in ("RPUT", "RGET"):
            cand = ops[:i] + ops[i + 1:]
            if test(cand):
                ops = cand
        i -= 1
    c = dict(case)
    c["ops"] = ops
    return c
