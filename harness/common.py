"""Shared plumbing for the correspondence harness: importing /repo's current sources,
silencing the library's print flood, building and running the extracted model."""
import os, sys, subprocess, hashlib, json, time, importlib, pkgutil, fcntl, shutil, tempfile

VERIF = os.path.dirname(os.path.dirname(os.path.abspath(__file__)))
REPO = os.environ.get("VERIF_REPO", "/repo")
SRC = os.path.join(REPO, "src")
BUILD = os.path.join(VERIF, "build")
COQ = os.path.join(VERIF, "coq")


def import_repo():
    """Force the implementation under test to be /repo/src (not an installed copy)."""
    if sys.path[0] != SRC:
        sys.path.insert(0, SRC)
    for k in [k for k in sys.modules if k == "factorysimpy" or k.startswith("factorysimpy.")]:
        del sys.modules[k]
    import factorysimpy
    assert os.path.realpath(factorysimpy.__path__[0]).startswith(os.path.realpath(SRC)), factorysimpy.__path__
    return factorysimpy


def silence(mod):
    mod.print = lambda *a, **k: None
    return mod


def load(name):
    """import factorysimpy.<name> from /repo/src with its prints silenced"""
    import_repo_once()
    m = importlib.import_module("factorysimpy." + name)
    return silence(m)


_imported = False


def import_repo_once():
    global _imported
    if not _imported:
        import_repo()
        _imported = True


def sh(cmd, cwd=None, timeout=1800, env=None):
    p = subprocess.run(cmd, shell=True, cwd=cwd, stdout=subprocess.PIPE, stderr=subprocess.STDOUT,
                       timeout=timeout, env=env, text=True)
    return p.returncode, p.stdout


class Lock:
    def __init__(self, name):
        os.makedirs(BUILD, exist_ok=True)
        self.path = os.path.join(BUILD, name + ".lock")

    def __enter__(self):
        self.f = open(self.path, "w")
        fcntl.flock(self.f, fcntl.LOCK_EX)
        return self

    def __exit__(self, *a):
        fcntl.flock(self.f, fcntl.LOCK_UN)
        self.f.close()


def run_driver(text, timeout=600):
    """Feed cases to the extracted model; returns list of cases, each a list of lines."""
    drv = os.path.join(BUILD, "ocaml", "driver")
    p = subprocess.run([drv], input=text, stdout=subprocess.PIPE, stderr=subprocess.PIPE, text=True, timeout=timeout)
    if p.returncode != 0:
        raise RuntimeError("model driver failed: " + p.stderr[-2000:])
    cases, cur = [], None
    for l in p.stdout.split("\n"):
        if l == "CASE":
            cur = []
        elif l == "END":
            cases.append(cur)
            cur = None
        elif cur is not None:
            cur.append(l)
    return cases
