"""C14 correspondence: the real `Fleet` edge (edges/fleet.py over FleetStore) against the timed model
coq/theories/Edges/TFleet.v.  The harness is the scheduler; kernel pops are translated into
ACTIVATE (one iteration of fleet_activation_process: recognised by its env.any_of call), ARRIVE (a
trip delivered its batch: ready_items grew) and IDLE d (the clock moved)."""
import random, simpy
from . import common


class Obj:
    def __init__(self, i):
        self.i = i
        self.id = "it%d" % i


def oid(x):
    return x.i if isinstance(x, Obj) else -1


class Impl:
    def __init__(self, case):
        m = common.load("edges.fleet")
        common.load("base.fleet_store")
        self.env = simpy.Environment()
        self.anyofs = 0
        orig = self.env.any_of

        def any_of(evs, _o=orig):
            self.anyofs += 1
            return _o(evs)
        self.env.any_of = any_of
        # the same whole-number delays, handed over as int or as float (2 and 2.0 are the same delay)
        num = float if case.get("as_float") else int
        self.fl = m.Fleet(self.env, "F", capacity=case["cap"], delay=num(case["fdelay"]), transit_delay=num(case["transit"]))
        self.fl.src_node = object()
        self.fl.dest_node = object()
        self.st = self.fl.inbuiltstore
        self.callers, self.toks, self.tokid = {}, [], {}

    def caller(self, p):
        return self.callers.setdefault(p, ("proc", p))

    def ids(self, evs):
        return ",".join(str(self.tokid.get(id(e), -1)) for e in evs)

    def state(self):
        st = self.st
        getres = ",".join("%d:%d" % (self.tokid.get(id(e), -1), oid(it)) for e, it in zip(st.reserved_events, st.reserved_items))
        return "|".join([",".join(str(oid(x)) for x in st.items), ",".join(str(oid(x)) for x in st.ready_items),
                         self.ids(st.reserve_put_queue), self.ids(st.reservations_put), self.ids(st.reserve_get_queue), getres,
                         str(int(self.env.now)), ",".join(str(oid(x)) for x in st.in_transit_items)])

    def trig_order(self, before):
        eid = {id(q[3]): q[2] for q in self.env._queue}
        new = [i for i, e in enumerate(self.toks) if e.triggered and not before[i]]
        new.sort(key=lambda i: eid.get(id(self.toks[i]), -1))
        return ",".join(str(i) for i in new)

    def api(self, op):
        fl, env = self.fl, self.env
        k = op[0]
        before = [e.triggered for e in self.toks]
        try:
            if k in ("RPUT", "RGET"):
                env._active_proc = self.caller(op[1])
                e = fl.reserve_put() if k == "RPUT" else fl.reserve_get()
                self.tokid[id(e)] = len(self.toks)
                self.toks.append(e)
                before.append(False)
                res = "tok:%d" % (len(self.toks) - 1)
            elif k == "LOAD":
                env._active_proc = self.caller(op[1])
                r = fl.put(self.toks[op[2]], Obj(op[3]))
                res = "ok" if r else "ret:%r" % (r,)
            elif k == "GET":
                env._active_proc = self.caller(op[1])
                res = "item:%d" % oid(fl.get(self.toks[op[2]]))
            elif k == "CPUT":
                env._active_proc = self.caller(0)
                res = "ok" if fl.reserve_put_cancel(self.toks[op[1]]) else "ret"
            elif k == "CGET":
                env._active_proc = self.caller(0)
                res = "ok" if fl.reserve_get_cancel(self.toks[op[1]]) else "ret"
            elif k == "FINAL":
                # a statistics checkpoint in the middle of a run: reads, does not change what the fleet holds
                fl.update_final_fleet_avg_content(env.now)
                res = "ok"
            elif k == "PROBE":
                occ = fl.get_occupancy() if hasattr(fl, "get_occupancy") else fl.occupancy()
                res = "probe:%s,%s,%d" % (str(bool(fl.can_put())).lower(), str(bool(fl.can_get())).lower(), occ)
            else:
                raise AssertionError(k)
        except Exception as ex:  # noqa
            res = "err:" + type(ex).__name__
        finally:
            env._active_proc = None
        return res, self.trig_order(before)


def run_impl(case):
    im = Impl(case)
    micro, rows, mops = [], [], []
    first_anyof = [True]

    def pop():
        nxt = im.env.peek()
        if nxt > im.env.now:
            d = int(nxt - im.env.now)
            st = im.state().split("|")
            st[6] = str(int(nxt))
            micro.append(("IDLE", d)); rows.append(("ok", "", "|".join(st))); mops.append([("IDLE", d)])
        a0, r0 = im.anyofs, len(im.st.ready_items)
        before = [e.triggered for e in im.toks]
        err = None
        try:
            im.env.step()
        except Exception as ex:  # noqa
            err = "err:" + type(ex).__name__
        m = []
        if im.anyofs > a0:
            if first_anyof[0]:
                first_anyof[0] = False          # the process's first block: no activation yet
            else:
                m.append(("ACTIVATE",))
        if len(im.st.ready_items) > r0:
            m.append(("ARRIVE",))
        micro.append(("POP",)); rows.append((err or "ok", im.trig_order(before), im.state())); mops.append(m)
        return err

    for op in case["ops"]:
        op = tuple(op)
        if op[0] == "STEP":
            if im.env.peek() == im.env.now:
                pop()
        elif op[0] == "ADV":
            target = im.env.now + op[1]
            err = None
            while err is None and im.env.peek() <= target:
                err = pop()
            if err is None and target > im.env.now:
                d = int(target - im.env.now)
                im.env.run(until=target)
                micro.append(("IDLE", d)); rows.append(("ok", "", im.state())); mops.append([("IDLE", d)])
        else:
            res, trig = im.api(op)
            micro.append(op); rows.append((res, trig, im.state()))
            mops.append([(op[0], op[1], 0)] if op[0] in ("RPUT", "RGET") else ([] if op[0] == "FINAL" else [op]))
            if res.startswith("err:") and op[0] == "PROBE":
                pass
    return micro, rows, mops


FIELDS = ("items", "ready", "putq", "putres", "getq", "getres", "clock", "intransit")


def split(row):
    res, trig, st = row
    d = {"res": res, "trig": trig}
    for i, n in enumerate(FIELDS):
        f = st.split("|")
        d[n] = f[i] if i < len(f) else ""
    return d


def run_batch(cases):
    prepared, text = [], []
    for c in cases:
        micro, rows, mops = run_impl(c)
        prepared.append((c, micro, rows, mops))
        text.append("CASE tfleet %d %d %d\n" % (c["cap"], c["fdelay"], c["transit"]) +
                    "".join(" ".join(str(x) for x in m) + "\n" for grp in mops for m in grp) + "END\n")
    outs = common.run_driver("".join(text))
    res = []
    for (c, micro, rows, mops), lines in zip(prepared, outs):
        i, dis, mrows, last = 0, None, [], None
        for j, grp in enumerate(mops):
            got = None
            for _ in grp:
                got = lines[i]; i += 1
            mrows.append(got)
            if dis is not None:
                continue
            a = split(rows[j])
            if got is None:
                # a kernel pop the model has no step for must leave the fleet as the model last saw it
                if last is not None:
                    diff = [k for k in FIELDS if a[k] != last[k]]
                    if diff:
                        dis = (j, {k: a[k] for k in diff}, {k: last[k] for k in diff})
                continue
            if got == "ILLEGAL":
                dis = (j, a, "ILLEGAL")
                continue
            f = got.split("|")
            b = {"res": f[0] if len(grp) == 1 else a["res"], "trig": f[1] if len(grp) == 1 else a["trig"]}
            for k, n in enumerate(FIELDS):
                b[n] = f[2 + k]
            last = b
            diff = [k for k in b if a.get(k, "") != b[k]]
            if diff:
                dis = (j, {k: a[k] for k in diff}, {k: b[k] for k in diff})
        res.append(dict(case=c, micro=micro, impl=[split(r) for r in rows], model=mrows, dis=dis))
    return res


def oracle(case, micro, rows):
    """C14 on the implementation trace of one fleet"""
    viol, load, ready_at, clock = [], {}, {}, 0
    prev_ready, seq, full_at, prev, full_items = [], {}, None, None, set()
    wake, cap_at = 0, None
    for i, (op, r) in enumerate(zip(micro, rows)):
        if op[0] == "IDLE" and full_at is not None and prev is not None:
            # the instant in which the held items reached the capacity is over: everything loaded must have left
            waiting = [x for x in prev["items"].split(",") if x and x not in prev["intransit"].split(",") and x in full_items]
            if waiting:
                viol.append((i, "held items reached the capacity %d at %d but items %s had not departed when that instant ended" %
                             (case["cap"], full_at, ",".join(waiting))))
            full_at = None
        if op[0] == "PROBE" and r["res"].startswith("probe:"):
            cp, cg, occ = r["res"][6:].split(",")
            n = len([v for v in r["items"].split(",") if v]) + len([v for v in r["ready"].split(",") if v])
            if int(occ) != n:
                viol.append((i, "C11: occupancy = %s but the fleet holds %d items" % (occ, n)))
            nready = len([v for v in r["ready"].split(",") if v])
            ngres = len([v for v in r.get("getres", "").split(",") if v])
            if cg == "true" and nready <= ngres:
                viol.append((i, "the fleet offers an item to the destination (can_get) although none of the %d item(s) whose round trip "
                                "is over is unreserved (%d held or travelling)" % (nready, n - nready)))
            for j, kind, flag, what in ((i + 1, "RPUT", cp, "can_put"), (i + 3, "RGET", cg, "can_get")):
                if j < len(micro) and micro[j][0] == kind and rows[j]["res"].startswith("tok:"):
                    granted = rows[j]["res"][4:] in rows[j]["trig"].split(",")
                    if (flag == "true") != granted:
                        viol.append((i, "C11: Fleet.%s() = %s but a reservation issued now is %s" % (what, flag, "granted" if granted else "not granted")))
        elif op[0] == "PROBE":
            viol.append((i, "C11: Fleet query raised " + r["res"]))
        was_out = set(x for x in prev["intransit"].split(",") if x) if prev is not None else set()
        prev = r
        clock = int(r["clock"]) if r["clock"] != "" else clock
        gone = set(x for x in r["intransit"].split(",") if x) - was_out
        if gone and case["fdelay"] > 0:
            # a departure: the held items reached the capacity in this instant, or the waiting delay, which runs
            # from the activation process's last wake-up (start of the run, last departure), has just expired
            if cap_at != clock and not (clock > wake and (clock - wake) % case["fdelay"] == 0):
                viol.append((i, "items %s departed at %d: the fleet held fewer than %d items and its waiting delay %d, running since %d, had not expired" %
                             (",".join(sorted(gone)), clock, case["cap"], case["fdelay"], wake)))
            wake = clock
        if op[0] == "LOAD" and r["res"] == "ok":
            if len([x for x in r["items"].split(",") if x]) + len([x for x in r["ready"].split(",") if x]) >= case["cap"]:
                cap_at = clock
            load[op[3]] = clock
            seq[op[3]] = len(seq)
            if len([x for x in r["items"].split(",") if x]) + len([x for x in r["ready"].split(",") if x]) >= case["cap"]:
                full_at = clock
                full_items = set(x for x in r["items"].split(",") if x)      # what the capacity trigger must send off
        if [x for x in r.get("getq", "").split(",") if x] and \
                len([x for x in r["ready"].split(",") if x]) > len([x for x in r.get("getres", "").split(",") if x]):
            viol.append((i, "a delivered item is not handed over: retrieval request(s) %s wait although %d delivered item(s) are unreserved" %
                         (r["getq"], len([x for x in r["ready"].split(",") if x]) - len([x for x in r.get("getres", "").split(",") if x]))))
        ready = [int(x) for x in r["ready"].split(",") if x]
        if sorted(ready, key=lambda x: seq.get(x, -1)) != ready and not any("order" in m for _, m in viol):
            viol.append((i, "available items %s are not in loading order" % ready))
        new = [x for x in ready if x not in prev_ready and x not in ready_at]
        for x in new:
            ready_at[x] = clock
            if x in load:
                if clock < load[x] + 2 * case["transit"]:
                    viol.append((i, "item %d available at %d, before load time %d + round trip %d" % (x, clock, load[x], 2 * case["transit"])))
                if clock > load[x] + case["fdelay"] + 2 * case["transit"]:
                    viol.append((i, "item %d available at %d, later than load %d + delay %d + round trip %d" %
                                 (x, clock, load[x], case["fdelay"], 2 * case["transit"])))
        if new:
            # the batch is in loading order and nothing loaded before its first item stays behind in transit
            if sorted(new, key=lambda x: (load.get(x, 0), x)) != new:
                viol.append((i, "batch %s did not arrive in loading order" % new))
        prev_ready = ready
    return viol


def gen_case(rng, n_ops):
    case = dict(model="tfleet", cap=rng.choice([1, 2, 2, 3, 4]), fdelay=rng.choice([1, 2, 3, 5]), transit=rng.choice([0, 0, 1, 2, 3]),
                as_float=rng.random() < 0.4)
    im = Impl(case)
    ops, item = [], [0]

    def tokens_in(lst):
        return [im.tokid[id(e)] for e in lst if id(e) in im.tokid]

    def do(op):
        ops.append(op)
        if op[0] == "STEP":
            if im.env.peek() == im.env.now:
                im.env.step()
        elif op[0] == "ADV":
            target = im.env.now + op[1]
            while im.env.peek() <= target:
                im.env.step()
            if target > im.env.now:
                im.env.run(until=target)
        else:
            im.api(op)
    for _ in range(n_ops):
        st = im.st
        gp, gg = tokens_in(st.reservations_put), tokens_in(st.reservations_get)
        pp, pg = tokens_in(st.reserve_put_queue), tokens_in(st.reserve_get_queue)
        ch = [("RPUT", 6), ("RGET", 4), ("STEP", 4), ("ADV", 5), ("PROBE", 3), ("FINAL", 1)]
        if gp:
            ch.append(("LOAD", 10))
        if gg:
            ch.append(("GET", 5))
        if gp or pp:
            ch.append(("CPUT", 1))
        if gg or pg:
            ch.append(("CGET", 2))
        k = rng.choices([c for c, _ in ch], [w for _, w in ch])[0]
        try:
            if k == "RPUT":
                do(("RPUT", rng.randrange(3)))
            elif k == "RGET":
                do(("RGET", rng.randrange(3)))
            elif k == "LOAD":
                t = rng.choice(gp)
                item[0] += 1
                do(("LOAD", im.toks[t].requesting_process[1], t, item[0]))
            elif k == "GET":
                t = rng.choice(gg)
                do(("GET", im.toks[t].requesting_process[1], t))
            elif k == "CPUT":
                do(("CPUT", rng.choice(gp + pp)))
            elif k == "CGET":
                do(("CGET", rng.choice(gg + pg)))
            elif k == "STEP":
                do(("STEP",))
            elif k == "FINAL":
                do(("FINAL",))
            elif k == "PROBE":
                do(("PROBE",))
                n0 = len(im.toks)
                do(("RPUT", 0)); do(("CPUT", n0)); do(("RGET", 0)); do(("CGET", n0 + 1))
            else:
                do(("ADV", rng.choice([1, 1, 2, 3])))
        except Exception:  # noqa
            break
    case["ops"] = [list(o) for o in ops]
    return case
