"""Search oracle for the factory-level properties, evaluated on the canonical output lines of an
*implementation* run (harness/factory.py) together with its configuration.  Not a proof: it
looks for a concrete failing configuration when an obligation or the correspondence breaks, and
double-checks on every run that what the theorems say about the model is what the code does.

check(cfg, lines) -> list of (property id, message)"""
from collections import defaultdict, Counter


def parse(lines):
    ev, nodes, edges, sel, crash = [], {}, {}, defaultdict(lambda: {0: [], 1: []}), None
    for l in lines:
        w = l.split()
        if not w:
            continue
        if w[0] in ("G", "P", "T", "D", "R", "W", "K"):
            ev.append((w[0],) + tuple(int(x) for x in w[1:]))
        elif w[0] == "S":
            sel[int(w[1])][int(w[2])].append(int(w[3]))
        elif w[0] == "NODE":
            d = {"finalize_error": "FINALIZE-ERROR" in l}
            for kv in w[2:]:
                if "=" in kv:
                    k, v = kv.split("=", 1)
                    d[k] = v
            nodes[int(w[1])] = d
        elif w[0] == "EDGE":
            d = {}
            for kv in w[2:]:
                k, v = kv.split("=", 1)
                d[k] = v
            edges[int(w[1])] = d
        elif w[0] == "OBS":
            ev.append(("OBS", int(w[1]), int(w[2]), w[3], int(w[4]), int(w[5])))
        elif w[0] == "CRASH":
            crash = w[1]
        elif w[0] == "EXHAUSTED":
            crash = "EXHAUSTED"
    return ev, nodes, edges, sel, crash


def nums(s):
    return [float(x) for x in s.split(",") if x != ""]


def check(cfg, lines):
    ev, nodes, edges, sel, crash = parse(lines)
    V = []
    T = cfg["T"]
    ncfg, ecfg = cfg["nodes"], cfg["edges"]

    def v(p, m):
        V.append((p, m))

    # ---------------- C20: a valid configuration runs to completion
    if cfg.get("valid", True):
        if crash == "EXHAUSTED":
            v("C20", "no progress of simulated time within the step budget (zero-time livelock)")
        elif crash:
            v("C20", "unhandled exception %s" % crash)
            msg = " ".join(l for l in lines if l.startswith("CRASH "))
            if "edge index" in msg or "edge_selection must be in range" in msg:
                # every selection policy of a valid configuration stays inside its edge list (ROUND_ROBIN cycles over
                # exactly the node's edges on that side; constants and streams were generated in range)
                v("C15", "a selection policy of a valid configuration produced an index outside the node's edge list: %s" % msg[:200])
    elif cfg.get("expect_reject"):
        kind = cfg["expect_reject"]
        fn = cfg.get("fault_node")
        touched = [e for e in ev if (e[0] == "P" and ecfg[e[2]]["src"] == fn) or (e[0] == "T" and ecfg[e[2]]["dst"] == fn)
                   or (e[0] == "G" and e[2] == fn)]
        if kind in ("cap_zero", "bad_mode", "nonblocking_zero_interarrival"):
            if "AT-CONSTRUCTION" not in lines:
                v("C20", "invalid configuration (%s) was accepted by the constructors" % kind)
        elif kind in ("bad_const_index", "bad_policy"):
            if not crash or touched:
                v("C20", "invalid configuration (%s on node %s) was simulated: crash=%s, movements of that node=%d" % (kind, fn, crash, len(touched)))
        elif kind == "bad_stream_index":
            # the first fault_after items are routed normally; the answer outside [0, n) must raise
            routed = [e for e in ev if e[0] == "P" and ecfg[e[2]]["src"] == fn]
            drew = len([e for e in ev if e[0] == "W" and e[1] == fn and e[2] == 2])
            if drew > cfg.get("fault_after", 0) and not crash:
                v("C15", "node %s obeyed an out-of-range selector answer instead of rejecting it (%d selections drawn, %d items routed)" % (fn, drew, len(routed)))
                v("C20", "out-of-range selector answer on node %s was silently simulated" % fn)
        elif kind == "negative_delay":
            if not crash and touched:
                v("C20", "negative delay on node %s was silently simulated" % fn)
        elif kind == "isolated_node":
            if not crash:
                v("C20", "a %s connected to nothing (node %s) was accepted: the run was simulated without it" % (ncfg[fn]["kind"], fn))
        elif kind == "bad_in_index":
            if not crash or [e for e in ev if e[0] == "T" and ecfg[e[2]]["dst"] == fn]:
                v("C20", "out-of-range constant in-edge index on machine %s was simulated: crash=%s" % (fn, crash))
        elif kind == "edge_negative_delay":
            fe = cfg["fault_edge"]
            puts = len([e for e in ev if e[0] == "P" and e[2] == fe])
            if puts > cfg.get("fault_after", 0) and not crash:
                v("C20", "negative delay on buffer %s was silently simulated (%d items put on it)" % (fe, puts))
    if crash:
        return V
    # ---------------- replay item places (C03) and collect per-item times
    place = {}                       # item -> ("src", n) | ("edge", e) | ("node", n) | ("disc", n) | ("recv", n)
    t_gen, t_get, t_put, creation = {}, defaultdict(list), defaultdict(list), {}
    inside = defaultdict(list)       # edge -> items inside (order of put)
    occ_hist = defaultdict(list)     # edge -> [(t, occupancy after the last event of instant t)], increasing t
    last_t = 0
    withdrawn = []                   # granted requests withdrawn (OBS cputg / cgetg), until the node moves an item
    held = defaultdict(list)         # node -> items held
    got_by = {}                      # item -> node that pulled it last
    disc_count, recv_count = Counter(), Counter()
    draws = defaultdict(lambda: defaultdict(list))
    level = defaultdict(lambda: [0.0, 0, 0])     # edge -> [integral, last t, last n]
    cycle = Counter()
    packed = defaultdict(list)
    got_from = {}
    pulled_via = {}
    t_disc = {}
    packed_sq, pull_sq = defaultdict(list), {}   # position in the trace of every pack / of a node's first pull of an item

    def content_before(pal, n):
        """what had been packed on the pallet when node n pulled it (a pallet may be packed again further down the line)"""
        lim = pull_sq.get((n, pal), 10 ** 9)
        return [i2 for (i2, _, _), q in zip(packed[pal], packed_sq[pal]) if q < lim]
    pull_log = defaultdict(list)     # node -> [(t, item, edge)] in log order
    push_log = defaultdict(list)
    max_held = Counter()
    occ_hi = defaultdict(lambda: [None, 0])   # edge -> [instant, highest occupancy seen in that instant]
    units = defaultdict(list)        # splitter / combiner -> pallets (units of work) currently held
    max_units = Counter()
    src_of_edge = {i: e["src"] for i, e in enumerate(ecfg)}
    dst_of_edge = {i: e["dst"] for i, e in enumerate(ecfg)}
    sq = 0
    for e in ev:
        sq += 1
        k = e[0]
        if k == "W":
            draws[e[1]][e[2]].append(e[3])
            continue
        if k == "OBS":
            # end-of-instant observer of the harness: a request still waiting although the edge could serve it
            _, t, ed, what, nq, nfree = e
            if what in ("cputg", "cgetg"):
                # a granted request withdrawn in this instant: remembered until the node's next movement
                withdrawn.append((t, ed, what))
            elif what == "ilist":
                n_recv = sum(1 for e2 in ev if e2[0] == "R" and e2[2] == ed)
                if nq > n_recv:
                    v("C18", "sink %d keeps a conveyor record for %d items, it received %d" % (ed, nq, n_recv))
            elif what == "pal":
                on = sum(1 for i_, pl in place.items() if pl == ("pal", nq))
                if on != nfree:
                    for pp in ("C03", "C16"):
                        v(pp, "pallet %d is put on edge %d at %s carrying %d item(s); %d item(s) were packed on it and not unpacked since" % (nq, ed, t, nfree, on))
            elif what == "droproom":
                for pp in ("C09", "C10", "C13"):
                    v(pp, "node %d dropped an item at %s although its conveyor out-edge %d would have admitted an entry at that instant "
                          "(the belt store's admission test accepts; an accumulating belt takes items until it holds its capacity)" % (nq, t, ed))
            elif what == "stale":
                for pp in ("C10", "C15"):
                    v(pp, "node %d requested %s edge %d at %s, but its state-dependent policy names another edge at that instant: the "
                          "policy was consulted earlier than it was acted upon" % (nq, "in-" if nfree == 1 else "out-", ed, t))
            elif what == "stamp":
                v("C18", "item %d moving over edge %d at %s: %s" % (nq, ed, t, {1: "one of its time stamps lies in the future",
                  2: "its node entry / exit stamp precedes its creation stamp", 3: "it leaves a node with an exit stamp earlier than its entry stamp",
                  4: "one of its time stamps was set back"}.get(nfree, "time stamps out of order")))
            elif what == "occ":
                v("C03", "edge %d at the end of instant %s holds %d item(s), %d went in through its put and have not come out through its get" % (ed, t, nq, nfree))
            elif what == "put":
                v("C10", "edge %d at the end of instant %s: %d space request(s) waiting while %d slot(s) are free and unreserved" % (ed, t, nq, nfree))
            else:
                v("C10", "edge %d at the end of instant %s: %d retrieval request(s) waiting while %d available item(s) are unreserved" % (ed, t, nq, nfree))
            continue
        t = e[1]
        if t < last_t:
            v("C19", "simulated time went back from %s to %s" % (last_t, t))
        last_t = t
        if k == "G":
            _, t, n, i = e
            if i in place:
                v("C03", "item %d created twice" % i)
            place[i] = ("src", n)
            t_gen[i] = t
            held[n].append(i)
        elif k == "K":
            _, t, n, pal, i = e
            if place.get(i) != ("node", n) or place.get(pal) != ("node", n):
                v("C03", "item %d packed into pallet %d by node %d while they are at %s / %s" % (i, pal, n, place.get(i), place.get(pal)))
            place[i] = ("pal", pal)
            packed[pal].append((i, pulled_via.get((n, i)), n))
            packed_sq[pal].append(sq)
            if i in held[n]:
                held[n].remove(i)
        elif k == "P":
            _, t, ed, i = e
            src = src_of_edge[ed]
            occ_hi[ed] = [t, max(len(inside[ed]) + 1, occ_hi[ed][1] if occ_hi[ed][0] == t else 0)]
            if place.get(i, ("?",))[0] == "pal" and place.get(place[i][1]) == ("node", src):
                place[i] = ("node", src)       # unpacked by the splitter that holds the pallet
                held[src].append(i)
            if place.get(i) not in (("src", src), ("node", src)):
                v("C03", "item %d put on edge %d at %s while it is at %s" % (i, ed, t, place.get(i)))
            if i in held[src]:
                held[src].remove(i)
            if i in units[src]:
                units[src].remove(i)
            if place.get(i) == ("src", src):
                creation[i] = t
            if ncfg[src]["blocking"] and ncfg[src]["outsel"][0] == "FA" and ncfg[src]["kind"] == "machine":
                # the worker chooses among its granted requests and puts in one kernel step: a lower-index
                # out-edge with room left for it at this very point had granted its request too
                slack = ncfg[src]["wcap"] - 1
                for e2 in ncfg[src]["outs"][:ncfg[src]["outs"].index(ed)]:
                    if len(inside[e2]) + slack < ecfg[e2]["cap"] and ecfg[e2]["kind"] != "conv":
                        v("C15", "blocking machine %d (FIRST_AVAILABLE) pushed item %d to out-edge %d at %s although the lower-index out-edge %d held %d of %d" %
                          (src, i, ed, t, e2, len(inside[e2]), ecfg[e2]["cap"]))
            if not ncfg[src]["blocking"] and ncfg[src]["outsel"][0] == "FA" and ncfg[src]["kind"] != "source":
                slack = ncfg[src]["wcap"] - 1
                for e2 in ncfg[src]["outs"][:ncfg[src]["outs"].index(ed)]:
                    # the choice was made earlier in this instant: e2 must have had room throughout it
                    top = max(len(inside[e2]), occ_hi[e2][1] if occ_hi[e2][0] == t else 0)
                    if ecfg[e2]["kind"] == "buffer" and top + slack < ecfg[e2]["cap"]:
                        v("C15", "non-blocking node %d (FIRST_AVAILABLE) pushed item %d to out-edge %d at %s although the lower-index out-edge %d held at most %d of %d in that instant" %
                          (src, i, ed, t, e2, top, ecfg[e2]["cap"]))
            if ncfg[src]["outsel"][0] == "FA" and ncfg[src]["blocking"]:
                for (tw, ew, ww) in withdrawn:
                    if ww == "cputg" and tw == t and src_of_edge.get(ew) == src and ew in ncfg[src]["outs"] and ed in ncfg[src]["outs"] \
                            and ncfg[src]["outs"].index(ew) < ncfg[src]["outs"].index(ed):
                        v("C15", "node %d (FIRST_AVAILABLE) withdrew its GRANTED space request on out-edge %d and pushed item %d to the higher-index out-edge %d at %s" %
                          (src, ew, i, ed, t))
            withdrawn[:] = [x for x in withdrawn if not (x[2] == "cputg" and src_of_edge.get(x[1]) == src)]
            place[i] = ("edge", ed)
            inside[ed].append(i)
            if occ_hist[ed] and occ_hist[ed][-1][0] == t:
                occ_hist[ed][-1] = (t, len(inside[ed]))
            else:
                occ_hist[ed].append((t, len(inside[ed])))
            t_put[i].append((t, ed))
            push_log[src].append((t, i, ed))
            L = level[ed]
            L[0] += L[2] * (t - L[1]); L[1] = t; L[2] = len(inside[ed])
            if len(inside[ed]) > ecfg[ed]["cap"]:
                v("C01", "edge %d holds %d items, capacity %d" % (ed, len(inside[ed]), ecfg[ed]["cap"]))
        elif k == "T":
            _, t, ed, i = e
            occ_hi[ed] = [t, max(len(inside[ed]), occ_hi[ed][1] if occ_hi[ed][0] == t else 0)]
            if place.get(i) != ("edge", ed):
                v("C03", "item %d taken from edge %d at %s while it is at %s" % (i, ed, t, place.get(i)))
            else:
                fifo = ecfg[ed]["kind"] in ("fleet", "conv") or (ecfg[ed].get("mode") == "FIFO" and len(ecfg[ed].get("delays", [0])) == 1)
                if fifo and inside[ed][0] != i:
                    v("C06", "item %d taken from FIFO edge %d at %s while item %d, which became available before it, is still inside" %
                      (i, ed, t, inside[ed][0]))
                inside[ed].remove(i)
                if occ_hist[ed] and occ_hist[ed][-1][0] == t:
                    occ_hist[ed][-1] = (t, len(inside[ed]))
                else:
                    occ_hist[ed].append((t, len(inside[ed])))
                if ecfg[ed]["kind"] == "fleet" and t_put[i] and t < t_put[i][-1][0] + 2 * ecfg[ed]["transit"]:
                    v("C14", "item %d left fleet edge %d at %s, less than a round trip (2 x %s) after it was loaded at %s" %
                      (i, ed, t, ecfg[ed]["transit"], t_put[i][-1][0]))
            dst = dst_of_edge[ed]
            if ncfg[dst]["insel"][0] == "FA" and ncfg[dst]["kind"] in ("machine", "splitter", "sink"):
                for (tw, ew, ww) in withdrawn:
                    if ww == "cgetg" and tw == t and dst_of_edge.get(ew) == dst and ew in ncfg[dst]["ins"] and ed in ncfg[dst]["ins"] \
                            and ncfg[dst]["ins"].index(ew) < ncfg[dst]["ins"].index(ed):
                        v("C15", "node %d (FIRST_AVAILABLE) withdrew its GRANTED retrieval request on in-edge %d and took item %d from the higher-index in-edge %d at %s" %
                          (dst, ew, i, ed, t))
            withdrawn[:] = [x for x in withdrawn if not (x[2] == "cgetg" and dst_of_edge.get(x[1]) == dst)]
            L = level[ed]
            L[0] += L[2] * (t - L[1]); L[1] = t; L[2] = len(inside[ed])
            if ncfg[dst]["kind"] == "sink":
                place[i] = ("sinkhold", dst)
            else:
                place[i] = ("node", dst)
                held[dst].append(i)
                max_held[dst] = max(max_held[dst], len(held[dst]))
                if ncfg[dst]["kind"] == "splitter" or (ncfg[dst]["kind"] == "combiner" and ed == ncfg[dst]["ins"][0]):
                    units[dst].append(i)
                    max_units[dst] = max(max_units[dst], len(units[dst]))
            t_get[i].append((t, ed))
            pull_sq.setdefault((dst, i), sq)
            got_from[i] = ed
            pulled_via[(dst, i)] = ed
            pull_log[dst].append((t, i, ed))
            got_by[i] = dst
        elif k == "D":
            _, t, n, i = e
            disc_count[n] += 1
            if place.get(i, ("?",))[0] == "pal" and place.get(place[i][1]) == ("node", n):
                held[n].append(i)              # popped from the pallet the splitter holds
            if i not in held[n]:
                v("C03", "node %d counts the discard of item %d at %s but does not hold it (it is at %s)" % (n, i, t, place.get(i)))
            else:
                held[n].remove(i)
            if i in units[n]:
                units[n].remove(i)
            place[i] = ("disc", n)
            t_disc[(n, i)] = t
            if not ncfg[n]["blocking"]:
                outs_ = ncfg[n]["outs"]
                probe = outs_ if ncfg[n]["outsel"][0] == "FA" else []
                slack = ncfg[n]["wcap"] - 1
                for e2 in probe:
                    if len(inside[e2]) + slack < ecfg[e2]["cap"] and ecfg[e2]["kind"] != "conv":
                        v("C09", "non-blocking node %d dropped item %d at %s although out-edge %d held %d of %d" %
                          (n, i, t, e2, len(inside[e2]), ecfg[e2]["cap"]))
            if ncfg[n]["blocking"]:
                v("C09", "blocking node %d discarded item %d at %s" % (n, i, t))
        elif k == "R":
            _, t, n, i = e
            recv_count[n] += 1
            if place.get(i) != ("sinkhold", n):
                v("C03", "sink %d counts the reception of item %d at %s without having taken it (it is at %s)" % (n, i, t, place.get(i)))
            place[i] = ("recv", n)
            if i in creation:
                cycle[n] += t - creation[i]
    for i, pl in place.items():
        if pl[0] == "sinkhold":
            v("C03", "item %d was taken by sink %d but never counted as received" % (i, pl[1]))
    # ---------------- C03 accounting at the end
    n_gen = len(t_gen)
    tally = Counter(p[0] for p in place.values())
    if sum(tally.values()) != n_gen:
        v("C03", "places %s do not add up to %d generated items" % (dict(tally), n_gen))
    for n, nd in nodes.items():
        if nd["finalize_error"]:
            v("C17", "update_final_state_time(%s) raised for node %d" % (T, n))
            continue
        kind = ncfg[n]["kind"]
        gen = sum(1 for i, (t, ) in ((i, (t_gen[i],)) for i in t_gen) if False)
        n_generated = sum(1 for e in ev if e[0] == "G" and e[2] == n)
        if int(nd["gen"]) != n_generated:
            v("C18", "node %d reports %s generated, %d items were created" % (n, nd["gen"], n_generated))
        if int(nd["disc"]) != disc_count[n]:
            for pp in ("C18", "C03"):
                v(pp, "node %d reports %s discarded, %d discards happened" % (n, nd["disc"], disc_count[n]))
        if int(nd["recv"]) != recv_count[n]:
            v("C18", "sink %d reports %s received, %d receptions happened" % (n, nd["recv"], recv_count[n]))
        pushed = sum(1 for i in t_put for (t, ed) in t_put[i] if src_of_edge[ed] == n)
        if kind == "source" and not crash and not 0 <= int(nd["gen"]) - pushed - int(nd["disc"]) <= 1:
            # generated = pushed downstream + dropped (+ the one item the source may have in hand)
            for pp in ("C18", "C03") + (("C09",) if ncfg[n]["blocking"] else ()):
                v(pp, "source %d reports %s generated and %s discarded, it pushed %d items downstream%s" %
                      (n, nd["gen"], nd["disc"], pushed, " (a blocking source waits with the one item it has finished)" if ncfg[n]["blocking"] else ""))
        if kind in ("machine", "splitter", "combiner") and int(nd["procd"]) != pushed:
            v("C18", "%s %d reports %s processed, %d items were pushed downstream" % (kind, n, nd["procd"], pushed))
        if kind == "sink" and abs(float(nd["cycle"]) - cycle[n]) > 1e-6:
            v("C18", "sink %d reports total cycle time %s, sum over received items is %s" % (n, nd["cycle"], cycle[n]))
        # ---- C17: totals non-negative and partition T
        ts = nums(nd["tstate"])
        if kind in ("machine", "source", "splitter", "combiner") and ts and not crash:
            # the set-up period, and nothing else, is charged to the set-up state
            want = min(float(ncfg[n]["setup"]), float(T))
            if abs(ts[0] - want) > 1e-6:
                v("C17", "%s %d: %s charged to the set-up state, its set-up period within the run lasted %s" % (kind, n, ts[0], want))
        if any(x < -1e-9 for x in ts):
            v("C17", "node %d has a negative state time %s" % (n, ts))
        if kind == "source" and ncfg[n]["blocking"] and len(ts) == 3 and not crash:
            # a blocking source is BLOCKED from the creation of an item until it has put it, GENERATING otherwise
            blk = 0.0
            for i_, tg_ in t_gen.items():
                if place.get(i_) is None:
                    continue
                mine = [e_ for e_ in ev if e_[0] == "G" and e_[3] == i_ and e_[2] == n]
                if not mine:
                    continue
                outs_ = [tq for (tq, e2) in t_put[i_] if src_of_edge[e2] == n]
                blk += (min(outs_[0], T) if outs_ else T) - min(tg_, T)
            want_gen = max(0.0, T - min(float(ncfg[n]["setup"]), float(T)) - blk)
            if abs(ts[2] - blk) > 1e-6 or abs(ts[1] - want_gen) > 1e-6:
                v("C17", "source %d: GENERATING / BLOCKED charged %s / %s, its items waited for room for %s in all (generating %s)" %
                  (n, ts[1], ts[2], blk, want_gen))
        if kind == "machine":
            setup, idle, onep, allb, allp, oneb = ts
            for name, grp in (("A", setup + idle + allb + onep), ("B", setup + idle + allp + oneb)):
                if abs(grp - T) > 1e-6:
                    v("C17", "machine %d: state group %s adds up to %s, elapsed %s (states %s)" % (n, name, grp, T, ts))
            if ncfg[n]["wcap"] == 1 and ncfg[n]["blocking"]:
                # one worker: it processes an item from the pull for one delay, then is blocked until the push
                proc_t = blk_t = 0.0
                dl = ncfg[n]["delays"]
                for k_, (tp_, i_, e_) in enumerate(pull_log[n]):
                    d_ = dl[k_ % len(dl)]
                    outs_ = [tq for (tq, e2) in t_put[i_] if src_of_edge[e2] == n]
                    end_ = outs_[0] if outs_ else T
                    proc_t += max(0.0, min(tp_ + d_, T) - tp_)
                    blk_t += max(0.0, min(end_, T) - min(tp_ + d_, T))
                if abs(onep - proc_t) > 1e-6 or abs(allp - proc_t) > 1e-6:
                    v("C17", "machine %d (one worker): processing states charged %s / %s, its items were in processing for %s" % (n, onep, allp, proc_t))
                if abs(allb - blk_t) > 1e-6 or abs(oneb - blk_t) > 1e-6:
                    v("C17", "machine %d (one worker): blocked states charged %s / %s, finished items waited for room for %s" % (n, allb, oneb, blk_t))
            if ncfg[n]["wcap"] > 1:
                # several workers: every pulled item is in processing for one delay from its pull (delays are drawn
                # in pull order), then -- in a blocking machine -- waits for room until it is pushed; the five
                # activity states are charged by how many workers are processing (p) and blocked (b)
                dl = ncfg[n]["delays"]
                ivs = []
                for k_, (tp_, i_, e_) in enumerate(pull_log[n]):
                    d_ = dl[k_ % len(dl)]
                    ready_ = min(tp_ + d_, T)
                    if ncfg[n]["blocking"]:
                        outs_ = [tq for (tq, e2) in t_put[i_] if src_of_edge[e2] == n]
                        end_ = max(ready_, min(outs_[0] if outs_ else T, T))
                    else:
                        end_ = ready_
                    ivs.append((min(tp_, T), ready_, end_))
                pts = sorted(set([0.0, float(T)] + [x for iv in ivs for x in iv]))
                tot = dict(onep=0.0, allp=0.0, allb=0.0, oneb=0.0)
                for a_, b_ in zip(pts, pts[1:]):
                    p_ = sum(1 for (x, y, z) in ivs if x <= a_ < y)
                    q_ = sum(1 for (x, y, z) in ivs if y <= a_ < z)
                    if p_ > 0: tot["onep"] += b_ - a_
                    if p_ > 0 and q_ == 0: tot["allp"] += b_ - a_
                    if q_ > 0 and p_ == 0: tot["allb"] += b_ - a_
                    if q_ > 0: tot["oneb"] += b_ - a_
                for name, got in (("onep", onep), ("allp", allp), ("allb", allb), ("oneb", oneb)):
                    if abs(got - tot[name]) > 1e-6:
                        v("C17", "machine %d (%d workers): activity states charged %s, the pull / ready / push times of its items give %s" %
                          (n, ncfg[n]["wcap"], dict(onep=onep, allp=allp, allb=allb, oneb=oneb), tot))
                        break
            occ = nums(nd["occ"])
            if abs(sum(occ) - T) > 1e-6:
                v("C17", "machine %d: worker-occupancy histogram adds up to %s, elapsed %s" % (n, sum(occ), T))
            if max_held[n] > ncfg[n]["wcap"]:
                v("C08", "machine %d held %d items at once, work_capacity %d" % (n, max_held[n], ncfg[n]["wcap"]))
        else:
            if kind == "splitter" and ncfg[n]["blocking"] and len(ts) == 4:
                # one worker: processing for one delay after the pull, then blocked until the emptied pallet has left
                proc_t = blk_t = 0.0
                dl = ncfg[n]["delays"]
                for k_, (tp_, pal_, e_) in enumerate(pull_log[n]):
                    d_ = dl[k_ % len(dl)]
                    outs_ = [tq for (tq, i2, e2) in push_log[n] if i2 == pal_]
                    end_ = outs_[0] if outs_ else T
                    proc_t += max(0.0, min(tp_ + d_, T) - tp_)
                    blk_t += max(0.0, min(end_, T) - min(tp_ + d_, T))
                if abs(ts[2] - proc_t) > 1e-6 or abs(ts[3] - blk_t) > 1e-6:
                    v("C17", "splitter %d: PROCESSING / BLOCKED charged %s / %s, its pallets were in processing for %s and waited for room for %s" %
                      (n, ts[2], ts[3], proc_t, blk_t))
            if kind == "combiner" and ncfg[n]["blocking"] and len(ts) == 4:
                # one worker: processing for one delay from the instant the last ingredient was pulled, then blocked until
                # the packed pallet has left
                nc_ = ncfg[n]
                proc_t = blk_t = 0.0
                pallets_ = [(t_, pal_) for (t_, pal_, e_) in pull_log[n] if e_ == nc_["ins"][0]]
                need_ = sum(q for k2, q in enumerate(nc_["recipe"]) if 1 <= k2 < len(nc_["ins"]))
                for k_, (t_, pal_) in enumerate(pallets_):
                    d_ = nc_["delays"][k_ % len(nc_["delays"])]
                    ing_ = [tt for (tt, i2, e2) in pull_log[n] if any(i2 == x and pk == n for (x, _, pk) in packed[pal_])]
                    if len(ing_) < need_:
                        continue            # still gathering
                    start_ = max([t_] + ing_)
                    outs_ = [tq for (tq, i2, e2) in push_log[n] if i2 == pal_]
                    end_ = outs_[0] if outs_ else T
                    proc_t += max(0.0, min(start_ + d_, T) - min(start_, T))
                    blk_t += max(0.0, min(end_, T) - min(start_ + d_, T))
                if abs(ts[2] - proc_t) > 1e-6 or abs(ts[3] - blk_t) > 1e-6:
                    v("C17", "combiner %d: PROCESSING / BLOCKED charged %s / %s, its pallets were in processing for %s and waited for room for %s" %
                      (n, ts[2], ts[3], proc_t, blk_t))
            if kind in ("splitter", "combiner") and max_units[n] > 1:
                v("C08", "%s %d held %d pallets (units of work) at once, it has one worker" % (kind, n, max_units[n]))
            if abs(sum(ts) - T) > 1e-6:
                v("C17", "node %d (%s): state times %s add up to %s, elapsed %s" % (n, kind, ts, sum(ts), T))
    # ---------------- C18: time-averaged occupancy
    for ed, d in edges.items():
        L = level[ed]
        integral = L[0] + L[2] * (T - L[1])
        if abs(float(d["wsum"]) - integral) > 1e-6:
            v("C18", "edge %d: weighted occupancy sum %s, integral of the true occupancy %s" % (ed, d["wsum"], integral))
    # ---------------- C12 inside factories: conveyor edges have unit item length, speed and slot delay, so successive entries are
    # at least 1 apart, an item is offered no earlier than <capacity> after it entered, and no more than <capacity> items are on it
    for ed, ec in enumerate(ecfg):
        if ec["kind"] != "conv" or crash:
            continue
        ins_ = sorted((t, i) for i in t_put for (t, e2) in t_put[i] if e2 == ed)
        for (ta, ia), (tb, ib) in zip(ins_, ins_[1:]):
            if tb - ta < 1 - 1e-9:
                v("C12", "conveyor %d: items %d and %d entered at %s and %s, less than one slot time (1) apart" % (ed, ia, ib, ta, tb))
                break
        for (ta, ia) in ins_:
            outs_ = [t for (t, e2) in t_get[ia] if e2 == ed and t >= ta]
            if outs_ and outs_[0] - ta < ec["cap"] - 1e-9:
                v("C12", "conveyor %d: item %d entered at %s and was taken at %s, before the belt travel time %s" % (ed, ia, ta, outs_[0], ec["cap"]))
                break
        if occ_hi[ed][1] > ec["cap"]:
            for pp in ("C12", "C01"):
                v(pp, "conveyor %d held %d items at %s, its capacity is %d" % (ed, occ_hi[ed][1], occ_hi[ed][0], ec["cap"]))
    # ---------------- C03 / C02: what each edge really holds at the end is what the movements say it holds
    for ed, d in edges.items():
        if "ready" not in d or crash:
            continue
        real = sorted(int(x) for x in (d.get("transit", "").split(",") + d["ready"].split(",")) if x not in ("", "-1"))
        if real != sorted(inside[ed]):
            v("C03", "edge %d holds items %s at the end of the run, the movements through its put / get leave %s inside" % (ed, real, sorted(inside[ed])))
    # ---------------- C10: nothing stranded at the end of the run (every event before T has been processed)
    for ed, d in edges.items():
        if "res" not in d:
            continue
        putq, putres, getq, getres = [int(x) for x in d["res"].split(",")]
        dst, src = dst_of_edge[ed], src_of_edge[ed]
        ready = [x for x in d["ready"].split(",") if x]
        if putres:
            v("C10", "edge %d: %d granted space reservation(s) left unused at the end of the run" % (ed, putres))
        if getres and ncfg[dst]["kind"] in ("sink", "machine"):
            v("C10", "edge %d: %d granted retrieval reservation(s) of %s %d left unused at the end of the run" % (ed, getres, ncfg[dst]["kind"], dst))
        if ready and getres and ncfg[dst]["kind"] == "splitter" and not held[dst] and not units[dst]:
            # a splitter claims a pallet and takes it as soon as its one worker is free; with nothing in its hands the worker IS free
            for pp in ("C10", "C03"):
                v(pp, "edge %d: pallet(s) %s are available to splitter %d, which holds nothing, but %d granted retrieval request(s) "
                      "that nobody will use keep them (a request of an earlier round was never withdrawn)" % (ed, ready, dst, getres))
        if ready and ncfg[dst]["kind"] == "sink":
            v("C10", "edge %d: item(s) %s available to sink %d were not taken" % (ed, ready, dst))
            if getres:
                v("C03", "edge %d: item(s) %s are available to sink %d, which is idle, but held by %d granted retrieval request(s) nobody will use: "
                         "they can never be received or discarded" % (ed, ready, dst, getres))
        if ready and ncfg[dst]["kind"] == "machine" and ncfg[dst]["insel"][0] == "FA" and len(held[dst]) < ncfg[dst]["wcap"] \
                and nodes.get(dst, {}).get("tstate") and T > ncfg[dst]["setup"]:
            v("C10", "edge %d: item(s) %s available to machine %d which holds %d < work_capacity %d items" %
              (ed, ready, dst, len(held[dst]), ncfg[dst]["wcap"]))
    # ---------------- C16: combiner recipes, splitter emissions
    for n, nc in enumerate(ncfg):
        if nc["kind"] == "combiner":
            for (tp, pal, ed) in push_log[n]:
                got = Counter(nc["ins"].index(e2) for (i2, e2, pk) in packed[pal] if pk == n and e2 in nc["ins"])
                exp = Counter({k: q for k, q in enumerate(nc["recipe"]) if k >= 1 and q > 0 and k < len(nc["ins"])})
                if got != exp:
                    v("C16", "combiner %d pushed pallet %d with items per in-edge %s, recipe %s" % (n, pal, dict(got), dict(exp)))
                if pulled_via.get((n, pal)) != nc["ins"][0]:
                    v("C16", "combiner %d pushed pallet %d that did not come from its first in-edge" % (n, pal))
        if nc["kind"] == "splitter":
            # per pulled pallet: its items in order, each once, then the pallet (drops allowed when non-blocking)
            seq = [(i2, "P") for (tp, i2, ed) in push_log[n]]
            pulled = [i2 for (tp, i2, ed) in pull_log[n]]
            emitted = Counter(i2 for (i2, _) in seq)
            for pal in pulled:
                content = content_before(pal, n)
                for x in content + [pal]:
                    done = emitted[x] + (1 if (n, x) in t_disc else 0)
                    if done > 1:
                        v("C16", "splitter %d emitted item %d %d times" % (n, x, done))
                # order of what was emitted for this pallet
                pos = {x: k for k, (x, _) in enumerate(seq)}
                em = [x for x in content + [pal] if x in pos]
                if [pos[x] for x in em] != sorted(pos[x] for x in em):
                    v("C16", "splitter %d emitted the content of pallet %d out of order: %s" % (n, pal, em))
                if pal in pos and any(x not in pos and (n, x) not in t_disc for x in content):
                    v("C16", "splitter %d emitted pallet %d before all of its items" % (n, pal))
            for pal in pulled[:-1]:
                if emitted[pal] == 0 and (n, pal) not in t_disc:
                    v("C16", "splitter %d went on to the next pallet without emitting pallet %d" % (n, pal))
            extra = [x for x in emitted if x not in pulled and not any(x in content_before(p_, n) for p_ in pulled)]
            if extra:
                v("C16", "splitter %d emitted items %s that it never received" % (n, extra))
    # ---------------- C08 / C10: a finished item waits only while no permitted out-edge has room
    def room_instant(ed, lo, hi):
        """an instant t' with lo <= t' < hi at whose end edge ed holds fewer items than its capacity"""
        h = occ_hist[ed]
        cap = ecfg[ed]["cap"]
        if ecfg[ed]["kind"] == "conv":
            return None                  # a belt's entrance opens by the passage of time, not by room alone
        before = 0
        for (tt, oc) in h:
            if tt <= lo:
                before = oc
        if before < cap and lo < hi:
            return lo
        for (tt, oc) in h:
            if lo < tt < hi and oc < cap:
                return tt
        return None

    for n, nc in enumerate(ncfg):
        if nc["kind"] not in ("machine", "combiner") or not nc["blocking"] or crash:
            continue
        waits = []                      # (item, ready time, push time or None, edge pushed to)
        if nc["kind"] == "machine":
            for k_, (tp_, i_, e_) in enumerate(pull_log[n]):
                d_ = nc["delays"][k_ % len(nc["delays"])]
                o_ = [(tq, e2) for (tq, e2) in t_put[i_] if src_of_edge[e2] == n]
                waits.append((i_, tp_ + d_, o_[0][0] if o_ else None, o_[0][1] if o_ else None))
        else:
            pallets_ = [(t_, pal_) for (t_, pal_, e_) in pull_log[n] if e_ == nc["ins"][0]]
            for k_, (t_, pal_) in enumerate(pallets_):
                d_ = nc["delays"][k_ % len(nc["delays"])]
                ing_ = [tt for (tt, i2, e2) in pull_log[n] if any(i2 == x and pk == n for (x, _, pk) in packed[pal_])]
                need_ = sum(q for k2, q in enumerate(nc["recipe"]) if k2 >= 1 and k2 < len(nc["ins"]))
                if len(ing_) < need_:
                    continue            # still gathering
                o_ = [(tq, e2) for (tq, i2, e2) in push_log[n] if i2 == pal_]
                waits.append((pal_, max([t_] + ing_) + d_, o_[0][0] if o_ else None, o_[0][1] if o_ else None))
        for (i_, ready_, tp_, e_) in waits:
            hi = tp_ if tp_ is not None else last_t
            if ready_ >= hi:
                continue
            if nc["outsel"][0] == "FA":
                cands = nc["outs"]
            elif e_ is not None:
                cands = [e_]
            else:
                continue
            for e2 in cands:
                ti = room_instant(e2, ready_, hi)
                if ti is not None:
                    for pp in ("C08", "C10"):
                        v(pp, "%s %d held finished item %d from %s until %s although its out-edge %d had room at the end of instant %s" %
                          (nc["kind"], n, i_, ready_, "the end of the run" if tp_ is None else tp_, e2, ti))
                    break
    # ---------------- C08 / C09 / C15: per node timing and routing
    for n, nc in enumerate(ncfg):
        kind = nc["kind"]
        if kind == "machine":
            pulls = pull_log[n]
            delays = nc["delays"]
            drawn = draws[n][0] if nc.get("style", "const") != "const" else None
            if drawn is not None and len(drawn) != len(pulls):
                v("C08", "machine %d drew %d processing delays for %d pulled items" % (n, len(drawn), len(pulls)))
            for k, (t, i, ed) in enumerate(pulls):
                d = delays[k % len(delays)]
                outs = [(tp, e2) for (tp, e2) in t_put[i] if src_of_edge[e2] == n]
                if outs and outs[0][0] < t + d:
                    v("C08", "machine %d pushed item %d at %s, before pull time %s + delay %s" % (n, i, outs[0][0], t, d))
                if not nc["blocking"]:
                    # non-blocking: pushed or dropped exactly when ready
                    if outs and outs[0][0] != t + d:
                        v("C09", "non-blocking machine %d pushed item %d at %s, it was ready at %s" % (n, i, outs[0][0], t + d))
                    if (n, i) in t_disc and t_disc[(n, i)] != t + d:
                        v("C09", "non-blocking machine %d dropped item %d at %s, it was ready at %s" % (n, i, t_disc[(n, i)], t + d))
                    if not outs and (n, i) not in t_disc and t + d < last_t:
                        v("C09", "non-blocking machine %d still holds item %d that was ready at %s" % (n, i, t + d))
            # selection histories are truthful
            ins_used = [nc["ins"].index(ed) for (t, i, ed) in pulls]
            if sel[n][0][:len(ins_used)] != ins_used and sel[n][0] != ins_used:
                if len(sel[n][0]) - len(ins_used) not in (0, 1) or sel[n][0][:len(ins_used)] != ins_used:
                    v("C15", "machine %d recorded in-edge selections %s, items were pulled from %s" % (n, sel[n][0][:12], ins_used[:12]))
            pol = nc["insel"]
            exp = expected_indices(pol, len(nc["ins"]), len(sel[n][0]))
            if exp is not None and sel[n][0] != exp:
                v("C15", "machine %d in-edge policy %s: selections %s, expected %s" % (n, pol[0], sel[n][0][:12], exp[:12]))
            pol = nc["outsel"]
            exp = expected_indices(pol, len(nc["outs"]), len(sel[n][1]))
            if exp is not None and sel[n][1] != exp:
                v("C15", "machine %d out-edge policy %s: selections %s, expected %s" % (n, pol[0], sel[n][1][:12], exp[:12]))
            if pol[0] == "S" and draws[n][2] != sel[n][1]:
                v("C15", "machine %d consulted its out-edge selector %d times for %d selections" % (n, len(draws[n][2]), len(sel[n][1])))
            # pushes go where the recorded selection says
            outs_used = [nc["outs"].index(ed) for (tp, i2, ed) in push_log[n]]
            if pol[0] != "FA" or nc["blocking"]:
                rec = sel[n][1]
                # recorded selections include items dropped by non-blocking index policies
                if nc["blocking"] and ((nc["wcap"] == 1 and rec[:len(outs_used)] != outs_used) or
                                       (Counter(outs_used) - Counter(rec))):
                    v("C15", "machine %d recorded out-edge selections %s, items were pushed to %s" % (n, rec[:12], outs_used[:12]))
        if kind in ("splitter", "combiner") and nc["blocking"]:
            # one worker, blocking: the recorded out-edge history is the sequence of pushes (a selection
            # may have been recorded for a push that is still waiting at the end of the run)
            outs_used = [nc["outs"].index(ed) for (tp, i2, ed) in push_log[n]]
            rec = sel[n][1]
            if rec[:len(outs_used)] != outs_used or len(rec) - len(outs_used) not in (0, 1):
                v("C15", "%s %d recorded out-edge selections %s, items were pushed to %s" % (kind, n, rec[:12], outs_used[:12]))
        if kind == "splitter":
            delays = nc["delays"]
            for k, (t, pal, ed) in enumerate(pull_log[n]):
                d = delays[k % len(delays)]
                content = content_before(pal, n) + [pal]
                firsts = [tp for (tp, i2, e2) in push_log[n] if i2 in content] + [t_disc[(n, x)] for x in content if (n, x) in t_disc]
                if not nc["blocking"]:
                    late = [tt for tt in firsts if tt != t + d]
                    if late:
                        v("C09", "non-blocking splitter %d emitted / dropped part of pallet %d at %s, the pallet was ready at %s" % (n, pal, late[0], t + d))
                    if len(firsts) < len(content) and t + d < last_t:
                        v("C09", "non-blocking splitter %d still holds part of pallet %d that was ready at %s" % (n, pal, t + d))
                if firsts and min(firsts) < t + d:
                    v("C08", "splitter %d emitted part of pallet %d at %s, before pull time %s + delay %s" % (n, pal, min(firsts), t, d))
        if kind == "combiner":
            delays = nc["delays"]
            pallets = [(t, pal) for (t, pal, ed) in pull_log[n] if ed == nc["ins"][0]]
            for k, (t, pal) in enumerate(pallets):
                d = delays[k % len(delays)]
                ing = [tt for (tt, i2, e2) in pull_log[n] if any(i2 == x and pk == n for (x, _, pk) in packed[pal])]
                ready = max([t] + ing) + d
                outs = [tp for (tp, i2, e2) in push_log[n] if i2 == pal]
                if outs and outs[0] < ready:
                    v("C08", "combiner %d pushed pallet %d at %s, before last ingredient time + delay = %s" % (n, pal, outs[0], ready))
                need = sum(q for k2, q in enumerate(nc["recipe"]) if 1 <= k2 < len(nc["ins"]))
                if not nc["blocking"] and len(ing) >= need and not crash:
                    # a non-blocking combiner hands the packed pallet over, or drops it, in the instant it is finished
                    ends = outs[:1] + ([t_disc[(n, pal)]] if (n, pal) in t_disc else [])
                    if ends and ends[0] != ready:
                        v("C09", "non-blocking combiner %d pushed / dropped pallet %d at %s, the pallet was finished at %s" % (n, pal, ends[0], ready))
                    if not ends and ready < last_t:
                        v("C09", "non-blocking combiner %d still holds pallet %d that was finished at %s" % (n, pal, ready))
        if kind == "source":
            gens = sorted((t_gen[i], i) for i in t_gen if place_src(i, ev) == n)
            pol = nc["outsel"]
            if pol[0] != "FA":
                exp = expected_indices(pol, len(nc["outs"]), len(gens))
                outs_used = {}
                for (tg, i) in gens:
                    o = [(tp, e2) for (tp, e2) in t_put[i] if src_of_edge[e2] == n]
                    if o:
                        outs_used[i] = nc["outs"].index(o[0][1])
                if exp is not None:
                    for k, (tg, i) in enumerate(gens):
                        if i in outs_used and outs_used[i] != exp[k]:
                            v("C15", "source %d policy %s: item #%d went to out-edge %d, expected %d" % (n, pol[0], k, outs_used[i], exp[k]))
                if pol[0] == "S" and len(draws[n][2]) != len(gens):
                    v("C15", "source %d consulted its selector %d times for %d items" % (n, len(draws[n][2]), len(gens)))
            if not nc["blocking"]:
                for (tg, i) in gens:
                    o = [(tp, e2) for (tp, e2) in t_put[i] if src_of_edge[e2] == n]
                    if o and o[0][0] != tg:
                        v("C09", "non-blocking source %d pushed item %d at %s, it was created at %s" % (n, i, o[0][0], tg))
                    if not o and place.get(i) == ("src", n) and tg < last_t:
                        v("C09", "non-blocking source %d still holds item %d created at %s" % (n, i, tg))
    return V


def place_src(i, ev):
    for e in ev:
        if e[0] == "G" and e[3] == i:
            return e[2]
    return None


def expected_indices(pol, n_edges, count):
    if pol[0] == "RR":
        return [k % n_edges for k in range(count)]
    if pol[0] == "C":
        return [pol[1]] * count
    if pol[0] == "S":
        return [pol[1][k % len(pol[1])] for k in range(count)]
    return None


def tags(cfg, lines):
    ev, nodes, edges, sel, crash = parse(lines)
    t = set()
    if any(e[0] == "D" for e in ev):
        t.add("discard")
    if any(n["kind"] == "machine" and n["wcap"] > 1 for n in cfg["nodes"]):
        t.add("multi-worker")
    if any(len(n["ins"]) > 1 for n in cfg["nodes"]):
        t.add("fan-in")
    if any(len(n["outs"]) > 1 for n in cfg["nodes"]):
        t.add("fan-out")
    if any(e["kind"] == "fleet" for e in cfg["edges"]):
        t.add("fleet")
    if any(n["blocking"] and n["kind"] != "sink" for n in cfg["nodes"]):
        t.add("blocking")
    if any(not n["blocking"] and n["kind"] != "sink" for n in cfg["nodes"]):
        t.add("non-blocking")
    if crash:
        t.add("crash:" + crash)
    if sum(1 for e in ev if e[0] == "R") > 0:
        t.add("delivered")
    return t
