"""Correspondence harness for the bound-item stores (BufferStore FIFO/LIFO, FleetStore) against
coq/theories/Stores/StoreB.v.  Same scheme as storep.py: the harness is the scheduler, every kernel
pop is translated into the internal model ops it amounts to (here: `READY i` for every item that
moved from items to ready_items during the pop, in the order in which they were appended)."""
import random, simpy
from . import common

KINDS = {"buffer": ("base.buffer_store", "BufferStore"),
         "fleet": ("base.fleet_store", "FleetStore"),
         "belt": ("base.belt_store", "BeltStore"),
         "slot": ("base.slotted_belt_store", "BeltStore")}
BELTS = ("belt", "slot")
FOREIGN = 1000


class Obj:
    __slots__ = ("i",)

    def __init__(self, i):
        self.i = i

    def __repr__(self):
        return "O%d" % self.i


class BeltItem:
    """what a conveyor hands to its belt store: id, length, conveyor_entry_time"""

    def __init__(self, i, now):
        self.i = i
        self.id = "it%d" % i
        self.length = 1
        self.conveyor_entry_time = now

    def __repr__(self):
        return "B%d" % self.i


def oid(x):
    if isinstance(x, tuple):
        x = x[0]
    return x.i if isinstance(x, (Obj, BeltItem)) else -1


class Impl:
    def __init__(self, kind, mode, cap, fdelay=4, transit=1):
        mod, cls = KINDS[kind]
        m = common.load(mod)
        self.kind, self.mode, self.cap = kind, mode, cap
        self.env = simpy.Environment()
        if kind == "buffer":
            self.st = getattr(m, cls)(self.env, capacity=cap, mode=mode)
        elif kind == "fleet":
            self.st = getattr(m, cls)(self.env, capacity=cap, delay=fdelay, transit_delay=transit)
        elif kind == "belt":
            self.st = getattr(m, cls)(self.env, capacity=cap, speed=1, accumulation_mode_indicator=bool(transit % 2))
        else:
            self.st = getattr(m, cls)(self.env, capacity=cap, mode=mode, delay=1)
        self.callers, self.toks, self.tokid, self.foreign = {}, [], {}, {}

    def caller(self, p):
        return self.callers.setdefault(p, ("proc", p))

    def ev(self, t):
        if t < len(self.toks):
            return self.toks[t]
        return self.foreign.setdefault(t, self.env.event())

    def ids(self, evs):
        return ",".join(str(self.tokid.get(id(e), -1)) for e in evs)

    def state(self):
        st = self.st
        extra = ""
        if [id(e) for e in st.reservations_get] != [id(e) for e in st.reserved_events] or \
                len(st.reserved_items) != len(st.reserved_events):
            extra = "|reserved_events!=reservations_get:%s/%d" % (self.ids(st.reserved_events), len(st.reserved_items))
        getres = ",".join("%d:%d" % (self.tokid.get(id(e), -1), oid(it))
                          for e, it in zip(st.reserved_events, st.reserved_items))
        if self.kind in BELTS and st.reserve_put_queue and not st.reservations_put and hasattr(st, "can_reserve_put") \
                and self.env.peek() > self.env.now:        # the instant is over: the entrance's own timer event has run
            # the store's own side-effect-free admission test says a request issued now would be granted,
            # yet requests are waiting and none is granted: read by the oracle (C04), not part of the model's state
            try:
                if st.can_reserve_put():
                    extra += "|stuck-put"
            except Exception:  # noqa
                pass
        return "|".join([",".join(str(oid(x)) for x in st.items), ",".join(str(oid(x)) for x in st.ready_items),
                         self.ids(st.reserve_put_queue), self.ids(st.reservations_put),
                         self.ids(st.reserve_get_queue), getres]) + extra

    def trig_order(self, before):
        """tokens newly triggered, in the order in which they were triggered (= kernel schedule order)"""
        eid = {id(q[3]): q[2] for q in self.env._queue}
        new = [i for i, e in enumerate(self.toks) if e.triggered and not before[i]]
        new.sort(key=lambda i: eid.get(id(self.toks[i]), -1))
        return ",".join(str(i) for i in new)

    def api(self, op):
        st, env = self.st, self.env
        k = op[0]
        before = [e.triggered for e in self.toks]
        try:
            if k in ("RPUT", "RGET"):
                env._active_proc = self.caller(op[1])
                f = st.reserve_put if k == "RPUT" else st.reserve_get
                e = f(op[2]) if self.kind in ("fleet", "slot") else f()
                self.tokid[id(e)] = len(self.toks)
                self.toks.append(e)
                before.append(False)
                res = "tok:%d" % (len(self.toks) - 1)
            elif k == "PUT":
                env._active_proc = self.caller(op[1])
                if self.kind in BELTS:
                    o = BeltItem(op[3], env.now)
                    r = st.put(self.ev(op[2]), (o, self.cap))   # travel time = capacity * slot time (1)
                    self.settle()
                else:
                    o = Obj(op[3])
                    r = st.put(self.ev(op[2]), (o, op[4]) if self.kind == "buffer" else o)
                res = "ok" if r else "ret:%r" % (r,)
            elif k == "GET":
                env._active_proc = self.caller(op[1])
                r = st.get(self.ev(op[2]))
                res = "item:%d" % oid(r)
            elif k == "CPUT":
                env._active_proc = self.caller(0)
                r = st.reserve_put_cancel(self.ev(op[1]))
                res = "ok" if r else "ret:%r" % (r,)
            elif k == "CGET":
                env._active_proc = self.caller(0)
                r = st.reserve_get_cancel(self.ev(op[1]))
                res = "ok" if r else "ret:%r" % (r,)
            else:
                raise AssertionError(k)
        except Exception as ex:  # noqa
            res = "err:" + type(ex).__name__
        finally:
            env._active_proc = None
        trig = self.trig_order(before)
        return res, trig

    def settle(self):
        """run the URGENT events of the current instant (process starts): the belt stores read item
        attributes that their move process sets when it starts"""
        env = self.env
        while env._queue and env._queue[0][0] == env.now and env._queue[0][1] <= 0:
            try:
                env.step()
            except Exception:  # noqa  (a stale `until` marker of env.run raises StopSimulation)
                pass

    def pop(self):
        """one kernel event; returns (model ops, newly triggered tokens, error)"""
        st = self.st
        ready_before = [id(x) for x in st.ready_items]
        before = [e.triggered for e in self.toks]
        err = None
        try:
            self.env.step()
        except Exception as ex:  # noqa
            err = "err:" + type(ex).__name__
        seen = set(ready_before)
        mops = [("READY", oid(x)) for x in st.ready_items if id(x) not in seen]
        trig = self.trig_order(before)
        if self.kind in BELTS:
            g = self.gate_guess(trig)
            if mops:
                mops = [("GATE", g)] + mops
            elif g:
                mops = [("GATE", 1), ("TRIGPUT",)]
        return mops, trig, err

    def gate_guess(self, trig):
        """belts: the spacing test is time driven; read its outcome off the implementation (a put
        request was granted in this op <=> the gate was open) -- the model keeps deciding the
        capacity test, the queue discipline, bindings and errors itself"""
        puts = set(self.tokid[id(e)] for e in self.st.reservations_put if id(e) in self.tokid)
        return 1 if any(int(t) in puts for t in trig.split(",") if t) else 0


def run_impl(case):
    """Execute the case on the implementation.  Returns (micro_ops, rows, mops, impl):
    one entry per *micro* op -- an API call, or one kernel pop (("POP",)), or a pure time advance
    (("IDLE",)); rows[i] = (result, newly triggered tokens, state) after micro op i; mops[i] = the
    model ops micro op i amounts to."""
    im = Impl(case["kind"], case["mode"], case["cap"], case.get("fdelay", 4), case.get("transit", 1))
    micro, rows, mops = [], [], []

    def pop():
        m, trig, err = im.pop()
        micro.append(("POP",))
        rows.append((err or "ok", trig, im.state()))
        mops.append(m)
        return err

    for op in case["ops"]:
        op = tuple(op)
        k = op[0]
        if k == "STEP":
            if im.env.peek() == im.env.now:
                pop()
        elif k == "WAKE":
            im.env.timeout(op[1])           # a wake-up of the harness's own (some process of the model resumes then): no store op
        elif k == "NEXT":
            if im.env.peek() != float("inf"):
                pop()                       # exactly one kernel event, whatever its time: the clock may now stand at an
                #                             instant whose other events (the store's own timers) have not run yet
        elif k == "ADV":
            target = im.env.now + op[1]
            err = None
            while err is None and im.env.peek() <= target:
                err = pop()
            if err is None and target > im.env.now:
                im.env.run(until=target)
        else:
            res, trig = im.api(op)
            micro.append(op)
            rows.append((res, trig, im.state()))
            m = [op[:4] if k == "PUT" else op]
            if im.kind in BELTS and k in ("RPUT", "GET", "CPUT"):
                m = [("GATE", im.gate_guess(trig))] + m
            mops.append(m)
    return micro, rows, mops, im


def model_text(case, mops):
    out = ["CASE storeb %s %s %d" % (case["kind"], case["mode"], case["cap"])]
    for grp in mops:
        for m in grp:
            out.append(" ".join(str(x) for x in m))
    out.append("END")
    return "\n".join(out) + "\n"


def model_rows(lines, mops):
    rows, i, last_state = [], 0, "|||||"
    for grp in mops:
        if not grp:
            rows.append(("ok", "", last_state))
            continue
        res, trigs = None, []
        for _ in grp:
            f = lines[i].split("|")
            i += 1
            res = f[0] if len(grp) == 1 else ("ok" if f[0] == "ok" and res in (None, "ok") else f[0])
            if f[1]:
                trigs.append(f[1])
            last_state = "|".join(f[2:])
        rows.append((res, ",".join(trigs), last_state))
    return rows


FIELDS = ("items", "ready", "putq", "putres", "getq", "getres")


def gen_case(rng, kind, n_ops, malformed=False):
    cap = rng.choice([1, 1, 2, 2, 3, 4, 6])
    mode = rng.choice(["FIFO", "LIFO"]) if kind in ("buffer", "slot") else "FIFO"
    case = dict(model="storeb", kind=kind, mode=mode, cap=cap,
                fdelay=rng.choice([1, 2, 4, 7]), transit=rng.choice([0, 0, 1, 2]))
    im = Impl(kind, mode, cap, case["fdelay"], case["transit"])
    ops, nprocs, nextitem, used = [], rng.choice([1, 2, 3, 4]), [0], []
    prios = rng.choice([[0], [0, 1], [-2, 0, 0, 3], [5, 5, 1], [-1, -1, -1, 2, 0]])
    delays = rng.choice([[0], [0, 1], [1, 2, 3], [0, 0, 5], [2]])

    def tokens_in(lst):
        return [im.tokid[id(e)] for e in lst if id(e) in im.tokid]

    for _ in range(n_ops):
        st = im.st
        granted_put, granted_get = tokens_in(st.reservations_put), tokens_in(st.reservations_get)
        pend_put, pend_get = tokens_in(st.reserve_put_queue), tokens_in(st.reserve_get_queue)
        choices = [("RPUT", 5), ("RGET", 5), ("STEP", 4), ("ADV", 3)]
        if granted_put:
            choices.append(("PUT", 9))
        if granted_get:
            choices.append(("GET", 5))
        if granted_put or pend_put:
            choices.append(("CPUT", 2))
        if granted_get or pend_get:
            choices.append(("CGET", 4))
        if malformed:
            choices.append(("BAD", 6))
        if kind in BELTS:
            choices += [("ADV", 4), ("STEP", 2), ("WAKE", 2), ("NEXT", 4)]
        k = rng.choices([c for c, _ in choices], [w for _, w in choices])[0]
        if k == "RPUT":
            op = ("RPUT", rng.randrange(nprocs), rng.choice(prios))
        elif k == "RGET":
            op = ("RGET", rng.randrange(nprocs), rng.choice(prios))
        elif k == "PUT":
            t = rng.choice(granted_put)
            nextitem[0] += 1
            op = ("PUT", im.toks[t].requesting_process[1], t, nextitem[0], rng.choice(delays))
        elif k == "GET":
            t = rng.choice(granted_get)
            op = ("GET", im.toks[t].requesting_process[1], t)
        elif k == "CPUT":
            op = ("CPUT", rng.choice(granted_put + pend_put + pend_put))
        elif k == "CGET":
            op = ("CGET", rng.choice(granted_get + granted_get + pend_get))
        elif k == "STEP":
            op = ("STEP",)
        elif k == "ADV":
            op = ("ADV", rng.choice([1, 1, 2, 3, 5]))
        elif k == "WAKE":
            op = ("WAKE", rng.choice([1, 1, 2, 3]))
        elif k == "NEXT":
            op = ("NEXT",)
        else:
            every = list(range(len(im.toks)))
            bad = rng.choice(["foreign", "reuse", "wrongowner", "pending", "cancelled", "crossside"])
            t = FOREIGN + rng.randrange(3)
            if bad != "foreign" and every:
                t = rng.choice(used) if bad in ("reuse", "cancelled") and used else rng.choice(every)
            p = rng.randrange(nprocs + 1)
            kk = rng.choice(["PUT", "GET", "CPUT", "CGET"])
            if bad == "wrongowner" and rng.random() < 0.6:
                # a thief that holds a granted reservation of its own on the same side presents another
                # process's granted token
                side = rng.choice([("PUT", granted_put), ("GET", granted_get)])
                owners = {tk: im.toks[tk].requesting_process[1] for tk in side[1]}
                pairs = [(a, b) for a in owners for b in owners if owners[a] != owners[b]]
                if pairs:
                    victim, own = rng.choice(pairs)
                    kk, t, p = side[0], victim, owners[own]
            if kk == "PUT":
                nextitem[0] += 1
                op = ("PUT", p, t, nextitem[0], rng.choice(delays))
            elif kk == "GET":
                op = ("GET", p, t)
            else:
                op = (kk, t)
        if op[0] in ("PUT", "GET", "CPUT", "CGET"):
            used.append(op[2] if op[0] in ("PUT", "GET") else op[1])
        ops.append(op)
        if op[0] == "STEP":
            if im.env.peek() == im.env.now:
                im.pop()
        elif op[0] == "WAKE":
            im.env.timeout(op[1])
        elif op[0] == "NEXT":
            if im.env.peek() != float("inf"):
                im.pop()
        elif op[0] == "ADV":
            target = im.env.now + op[1]
            try:
                while im.env.peek() <= target:
                    im.env.step()
                if target > im.env.now:
                    im.env.run(until=target)
            except Exception:  # noqa
                break
        else:
            im.api(op)
    case["ops"] = [list(o) for o in ops]
    return case
