"""C12 / C13 correspondence: the real conveyor edges (edges/continuous_conveyor.py over
base/belt_store.py, edges/slotted_conveyor.py over base/slotted_belt_store.py) against the timed
belt model coq/theories/Edges/TBelt.v.

A scenario is a set of producer processes (arrival gaps) and one consumer process (service
times, start time) run under the real kernel.  Wrappers placed from outside on the belt store
record, in kernel order, every admission test (_do_reserve_put, with its outcome), put, interrupt
delivered to a travel process, resume, arrival at the exit (append to ready_items) and get.  The
model replays that sequence: it must accept every step as legal (an item arrives exactly when its
remaining travel time has elapsed; the clock never passes a due arrival), compute the same
admission outcomes from its own state, and hold the same items in the same order after each step.

Times are multiples of 1/64 (ticks = 64 * time are integers), speeds and item lengths powers of two,
so the implementation's float arithmetic is exact."""
import random, simpy
from . import common

TICK = 64


class LogList(list):
    def __init__(self, log):
        super().__init__()
        self._log = log

    def append(self, x):
        super().append(x)
        self._log(x)


REAL = [False]          # real-valued stream: times are not on the 1/64 grid and no model replay is made


def tk(t):
    v = t * TICK
    if REAL[0]:
        return int(round(t * 1000000))
    assert abs(v - round(v)) < 1e-9, t
    return int(round(v))


def build(case, env):
    if case["kind"] == "cont":
        m = common.load("edges.continuous_conveyor")
        common.load("base.belt_store")
        cv = m.ConveyorBelt(env, "CV", conveyor_length=case["length"], speed=case["speed"], item_length=case["item_length"],
                            accumulating=case["acc"])
    else:
        m = common.load("edges.slotted_conveyor")
        common.load("base.slotted_belt_store")
        cv = m.ConveyorBelt(env, "CV", capacity=case["cap"], delay=case["delay"], accumulating=case["acc"])
    cv.src_node = object()
    cv.dest_node = object()
    return cv


def params(case):
    """(capacity, slot time u, travel time D) the implementation is expected to use, in ticks"""
    if case["kind"] == "cont":
        import math
        cap = int(math.ceil(case["length"]) / case["item_length"])
        u = case["item_length"] / case["speed"]
        return cap, tk(u), tk(case["item_length"] * cap / case["speed"])
    return case["cap"], tk(case["delay"]), tk(case["cap"] * case["delay"])


def run_impl(case):
    REAL[0] = bool(case.get("real"))
    try:
        return _run_impl(case)
    finally:
        REAL[0] = False


def _run_impl(case):
    """-> dict(ops=[model op tuples], obs=[per-op observation], items={i: times}, crash=None|str, states=[(t, state)])"""
    env = simpy.Environment()
    cv = build(case, env)
    belt = cv.belt
    Item = common.load("helper.item").Item
    ops, obs, states = [], [], []
    items = {}
    last = [0]

    def snap():
        return (",".join(str(it[0].k) for it in belt.items), ",".join(str(it.k) for it in belt.ready_items))

    def emit(op):
        now = tk(env.now)
        if now > last[0]:
            ops.append(("IDLE", now - last[0])); obs.append(None)
            last[0] = now
        ops.append(op); obs.append(snap())

    belt.ready_items = LogList(lambda it: (items[it.k].__setitem__("ready", env.now), emit(("READY", it.k))))
    o_rsv, o_put, o_int, o_res, o_get = belt._do_reserve_put, belt._do_put, belt._interrupt_specific_item, belt.resume_all_move_processes, belt._do_get

    def w_rsv(event, dry_run=False):
        noacc = 1 if belt.noaccumulation_mode_on else 0
        one = 1 if getattr(belt, "one_item_inserted", False) else 0
        if dry_run:
            # the side-effect-free admission probe (can_put): the model answers it from its own state
            r = o_rsv(event, dry_run=True)
            emit(("PROBE", noacc, one, 1 if r else 0))
            return r
        n0 = len(belt.reservations_put)
        r = o_rsv(event)
        emit(("RSV", noacc, one, 1 if len(belt.reservations_put) > n0 else 0))
        return r

    def w_put(event, item):
        r = o_put(event, item)
        if r:
            items[item[0].k]["put"] = env.now
            emit(("PUT", item[0].k))
        return r

    def w_int(item_id, reason):
        info = belt.active_move_processes.get(item_id)
        alive = bool(info and info["process"] and not info["process"].processed)
        r = o_int(item_id, reason)
        if alive:
            emit(("INT", info["item"][0].k))
        return r

    def w_res():
        r = o_res()
        emit(("RESUME",))
        return r

    def w_get(ev):
        it = o_get(ev)
        items[it.k]["out"] = env.now
        emit(("GET", it.k))
        return it

    belt._do_reserve_put, belt._do_put, belt._interrupt_specific_item, belt.resume_all_move_processes, belt._do_get = w_rsv, w_put, w_int, w_res, w_get
    o_state = cv.set_conveyor_state

    def w_state(new):
        r = o_state(new)
        if not states or states[-1][1] != new:
            states.append((env.now, new))
        return r
    cv.set_conveyor_state = w_state
    counter = [0]
    probe_mismatch = []

    def producer(gaps):
        for g in gaps:
            yield env.timeout(g)
            k = counter[0]; counter[0] += 1
            it = Item("it%d" % k); it.k = k
            it.length = case.get("item_length", 1)
            items[k] = dict(req=env.now)
            ev = cv.reserve_put()
            yield ev
            items[k]["admit"] = env.now
            cv.put(ev, it)

    def consumer(first, services):
        if first:
            yield env.timeout(first)
        n = 0
        while True:
            ev = cv.reserve_get()
            yield ev
            if case.get("hold"):
                # a destination that claims the item and takes it later (the Splitter does: it reserves the pallet, then
                # waits for its worker slot)
                h = case["hold"][n % len(case["hold"])]
                if h:
                    yield env.timeout(h)
            cv.get(ev)
            s = services[n % len(services)]; n += 1
            if s:
                yield env.timeout(s)
    def poller(period, n, start):
        """a non-blocking upstream: asks for an entry every `period`; takes it if granted at once, withdraws otherwise"""
        if start:
            yield env.timeout(start)
        for _ in range(n):
            cp = cv.can_put() if hasattr(cv.belt, "can_reserve_put") else None
            ev = cv.reserve_put()
            if cp is not None and bool(cp) != bool(ev.triggered):
                probe_mismatch.append((env.now, bool(cp), bool(ev.triggered)))
            if ev.triggered:
                k = counter[0]; counter[0] += 1
                it = Item("it%d" % k); it.k = k
                it.length = case.get("item_length", 1)
                items[k] = dict(req=env.now, admit=env.now)
                yield ev
                cv.put(ev, it)
            else:
                cv.belt.reserve_put_cancel(ev)
            yield env.timeout(period)
    for gaps in case["producers"]:
        if isinstance(gaps, dict):
            env.process(poller(gaps["poll"], gaps["n"], gaps.get("start", 0)))
        else:
            env.process(producer(gaps))
    env.process(consumer(case["first_get"], case["services"]))
    crash = None
    try:
        steps = 0
        while env.peek() <= case["T"] and steps < 20000:
            env.step(); steps += 1
    except Exception as ex:  # noqa
        crash = "%s: %s" % (type(ex).__name__, str(ex)[:120])
    now = tk(case["T"])
    if crash is None and now > last[0]:
        ops.append(("IDLE", now - last[0])); obs.append(None)
    return dict(ops=ops, obs=obs, items=items, crash=crash, states=states, probe_mismatch=probe_mismatch,
                impl_params=(cv.capacity, getattr(cv, "delay", None)))


def case_text(case, ops):
    cap, u, D = params(case)
    return ("CASE tbelt %s %d %d %d %d\n" % (case["kind"], cap, u, D, 1 if case["acc"] else 0) +
            "".join(" ".join(str(x) for x in o) + "\n" for o in ops) + "END\n")


def run_batch(cases):
    prepared, text = [], []
    for c in cases:
        r = run_impl(c)
        prepared.append((c, r))
        text.append(case_text(c, r["ops"]))
    outs = common.run_driver("".join(text))
    res = []
    for (c, r), lines in zip(prepared, outs):
        dis = None
        for j, (op, ob, ml) in enumerate(zip(r["ops"], r["obs"], lines)):
            if ml == "ILLEGAL" or ml.startswith("ILLEGAL"):
                dis = (j, list(op), "impl did this", ml)
                break
            f = ml.split("|")
            if op[0] in ("RSV", "PROBE") and f[0] != ("grant" if op[3] else "wait"):
                dis = (j, list(op), "admission outcome impl=%s" % ("grant" if op[3] else "wait"), "model=" + f[0])
                break
            if ob is not None and (f[1], f[2]) != ob:
                dis = (j, list(op), "items|ready impl=%s|%s" % ob, "model=%s|%s" % (f[1], f[2]))
                break
        res.append(dict(case=c, dis=dis, model=lines, **r))
    return res


# ---------------------------------------------------------------------------------------------------
def oracle(case, r):
    """C12 / C13 clauses evaluated on the implementation's own record of one run.
    -> list of (property, clause, message)"""
    V = []
    items, crash = r["items"], r["crash"]
    if case["kind"] == "cont":
        u = case["item_length"] / case["speed"]
        D_true = case["length"] / case["speed"]
        cap_true = int(case["length"] // case["item_length"])
    else:
        u = case["delay"]
        D_true = case["cap"] * case["delay"]
        cap_true = case["cap"]
    acc = bool(case["acc"])
    if crash:
        V.append(("C12", "crash", "run raised " + crash))
        if case["kind"] == "cont" and case["acc"] and any(st[1].startswith("STALLED") for st in r["states"]):
            # the closing-up logic of an accumulating belt gave up (its own placement / bookkeeping error) after a stall had
            # begun: items did not close up behind the waiting head (the registry keeps this clause for on-grid
            # one-producer cases only, where the unchanged code is known never to fail)
            V.append(("C13", "stall-crash", "accumulating belt failed after a stall began at %s: %s" %
                      (next(st[0] for st in r["states"] if st[1].startswith("STALLED")), crash)))
        return V
    for (t, cp, granted) in r.get("probe_mismatch", [])[:1]:
        V.append(("C12", "probe", "can_put() = %s at %s but a reservation issued in the same instant was %s" % (cp, t, "granted" if granted else "not granted")))
        if case["acc"] and granted and not cp:
            # an accumulating belt takes items until it holds its capacity: its probe must not turn a feeder away while the store admits
            V.append(("C13", "probe", "accumulating belt: can_put() refused at %s although an entry requested in the same instant was granted" % (t,)))
    if not any(isinstance(g, dict) for g in case["producers"]):
        # first come, first served at the entrance (item numbers are handed out in request order)
        adm = sorted(i for i in items if "admit" in items[i])
        for a, b in zip(adm, adm[1:]):
            if items[b]["admit"] < items[a]["admit"]:
                V.append(("C05", "fcfs-entry", "entry request %d (made at %s) was granted at %s, before the earlier request %d (made at %s, granted at %s)" %
                          (b, items[b]["req"], items[b]["admit"], a, items[a]["req"], items[a]["admit"])))
                break
        waiting = [i for i in items if "admit" not in items[i]]
        for a in waiting:
            later = [b for b in adm if b > a]
            if later:
                V.append(("C05", "fcfs-entry", "entry request %d (made at %s) was granted at %s while the earlier request %d (made at %s) was never granted" %
                          (later[0], items[later[0]]["req"], items[later[0]]["admit"], a, items[a]["req"])))
                break
    ids = sorted(i for i in items if "put" in items[i])
    ids.sort(key=lambda i: (items[i]["put"], i))
    outs = [i for i in ids if "out" in items[i]]
    outs_by_time = sorted(outs, key=lambda i: items[i]["out"])
    # order: items leave in the order in which they entered (get order is recorded in r["ops"])
    got = [o[1] for o in r["ops"] if o[0] == "GET"]
    put = [o[1] for o in r["ops"] if o[0] == "PUT"]
    if got != put[:len(got)]:
        V.append(("C12", "order", "items left in order %s but entered in order %s" % (got, put[:len(got)])))
    # capacity
    occ = 0
    for o in r["ops"]:
        if o[0] == "PUT":
            occ += 1
            if occ > cap_true:
                V.append(("C12", "capacity", "%d items on a belt that holds %d (length %s, item length %s)" %
                          (occ, cap_true, case.get("length"), case.get("item_length"))))
                break
        elif o[0] == "GET":
            occ -= 1
    # uniform stalls on a non-accumulating continuous belt: when time passes, either every item on the belt is
    # stopped or none is (the shape of history C12_fifo_under_uniform_stalls is about)
    if case["kind"] == "cont" and not acc:
        stopped, onbelt, clock = set(), [], 0
        for o in r["ops"]:
            if o[0] == "IDLE":
                if stopped and any(x not in stopped for x in onbelt):
                    V.append(("C13", "nonacc-partial-stall", "non-accumulating: at %s items %s were stopped while items %s kept moving" %
                              (clock / TICK, sorted(stopped), [x for x in onbelt if x not in stopped])))
                    break
                clock += o[1]
            elif o[0] == "PUT":
                onbelt.append(o[1])
            elif o[0] == "INT":
                stopped.add(o[1])
            elif o[0] == "RESUME":
                stopped.clear()
            elif o[0] == "READY":
                onbelt.remove(o[1]); stopped.discard(o[1])
    stalls = [(items[i]["ready"], items[i].get("out", float("inf"))) for i in ids if "ready" in items[i] and items[i].get("out", float("inf")) > items[i]["ready"]]

    def stalled(a, b):
        return sum(max(0, min(b, e) - max(a, s)) for s, e in stalls)
    eager = all("out" in items[i] and items[i]["out"] == items[i]["ready"] for i in ids if "ready" in items[i])
    for n, i in enumerate(ids):
        it = items[i]
        if n > 0:
            p = items[ids[n - 1]]
            if case["kind"] == "cont" and not acc and it["put"] - p["put"] - stalled(p["put"], it["put"]) < u <= it["put"] - p["put"]:
                V.append(("C12", "spacing-travel", "items %d and %d entered %s of belt travel apart (the belt stood still for %s in between), less than one item length (%s)" %
                          (ids[n - 1], i, it["put"] - p["put"] - stalled(p["put"], it["put"]), stalled(p["put"], it["put"]), u)))
            if it["put"] - p["put"] < u:
                V.append(("C12", "spacing", "items %d and %d entered %s apart, less than one item length of travel (%s)" % (ids[n - 1], i, it["put"] - p["put"], u)))
        if "ready" in it:
            if it["ready"] < it["put"] + D_true:
                V.append(("C12", "min-travel", "item %d offered at %s, entered at %s: less than the belt travel time %s" % (i, it["ready"], it["put"], D_true)))
            if eager and it["ready"] != it["put"] + D_true:
                V.append(("C12", "exact-travel", "destination takes every item at once, but item %d travelled %s instead of length/speed = %s" %
                          (i, it["ready"] - it["put"], D_true)))
            if acc:
                ideal = it["put"] + D_true
                if n > 0:
                    p = items[ids[n - 1]]
                    ideal = max(ideal, p["out"] + u) if "out" in p else None
                if n > 0 and "out" in items[ids[n - 1]] and it["ready"] < items[ids[n - 1]]["out"]:
                    V.append(("C13", "acc-exit-shared", "accumulating: item %d reached the exit at %s while item %d was still waiting there (it left at %s): the two overlap" %
                              (i, it["ready"], ids[n - 1], items[ids[n - 1]]["out"])))
                elif ideal is not None and it["ready"] < ideal:
                    V.append(("C13", "acc-overlap", "accumulating: item %d reached the exit at %s, less than one item length (%s) after item %d left at %s" %
                              (i, it["ready"], u, ids[n - 1], items[ids[n - 1]].get("out"))))
                if ideal is not None and it["ready"] > ideal:
                    V.append(("C13", "acc-late", "accumulating: item %d reached the exit at %s, later than closing up allows (%s)" % (i, it["ready"], ideal)))
            else:
                ideal = it["put"] + D_true + stalled(it["put"], it["ready"])
                if it["ready"] < ideal:
                    V.append(("C13", "nonacc-advanced", "non-accumulating: item %d advanced while the belt was stalled (offered at %s, frozen travel gives %s)" % (i, it["ready"], ideal)))
                if it["ready"] > ideal:
                    V.append(("C13", "nonacc-late", "non-accumulating: item %d did not resume from where it stopped (offered at %s, expected %s)" % (i, it["ready"], ideal)))
        if not acc:
            for s, e in stalls:
                if s < it["put"] < e:
                    V.append(("C13", "nonacc-admit", "non-accumulating: item %d admitted at %s while the head waited at the exit (%s..%s)" % (i, it["put"], s, e)))
    return V


def gen_case(rng, nprod=None, kind=None):
    kind = kind or rng.choice(["cont", "slot"])
    acc = rng.choice([0, 1])
    case = dict(model="tbelt", kind=kind, acc=acc)
    if kind == "cont":
        il = rng.choice([1, 1, 0.5, 2])
        sp = rng.choice([1, 1, 2, 0.5])
        ncap = rng.choice([1, 2, 3, 4, 5])
        # the belt length is a whole number of item lengths and itself whole (see known finding on ceil())
        while ncap * il != int(ncap * il):
            ncap += 1
        case.update(item_length=il, speed=sp, length=ncap * il)
        u = il / sp
    else:
        case.update(cap=rng.choice([1, 2, 3, 4, 5]), delay=rng.choice([1, 1, 2, 0.5]))
        u = case["delay"]
    style = rng.choice(["regular", "bursty", "irregular", "irregular", "fine", "poll", "meet", "meet"])
    D = (case["length"] / case["speed"]) if kind == "cont" else case["cap"] * case["delay"]
    nprod = nprod or (1 if rng.random() < 0.8 else 2)
    prods = []
    for _ in range(nprod):
        n = rng.randrange(2, 10)
        if style == "poll":
            prods.append(dict(poll=rng.choice([0.25, 0.25, 0.5, 0.125, 0.375]), n=rng.randrange(20, 120), start=rng.choice([0, 0, 0.125, 1])))
            continue
        if style == "fine":
            gaps = [rng.randrange(0, 257) / 64 for _ in range(n)]
        elif style == "meet":
            # arrivals that coincide with an earlier item reaching the exit (one transit time D later), with its
            # release, or with the end of its entry (one slot time u later)
            gaps = [rng.choice([0, 1, u, 2 * u])] + [rng.choice([D, D, D, u, D + u, 2 * u, D - u if D > u else D]) for _ in range(n - 1)]
        elif style == "regular":
            g = rng.choice([1, 2, 3]) * u
            gaps = [g] * n
        elif style == "bursty":
            gaps = [rng.choice([0, 0, 0, 4 * u]) for _ in range(n)]
        else:
            gaps = [rng.choice([0, 0.25, 0.5, 1, 1.5, 2, 3, 0.75, 5]) for _ in range(n)]
        prods.append(gaps)
    case["producers"] = prods
    if style == "fine":
        case["services"] = [rng.choice([0, 0, rng.randrange(0, 321) / 64]) for _ in range(rng.randrange(1, 5))]
        case["first_get"] = rng.choice([0, rng.randrange(0, 513) / 64])
    elif style == "meet":
        case["services"] = [rng.choice([0, u, D, 2 * D, D + u, 5, 20]) for _ in range(rng.randrange(1, 4))]
        case["first_get"] = rng.choice([0, 0, D + 2 * u, 2 * D + u, 3 * D, 20])
    else:
        case["services"] = [rng.choice([0, 0, 0, 1, 2, 5, 0.5, 0.25]) for _ in range(rng.randrange(1, 5))]
        case["first_get"] = rng.choice([0, 0, 3, 7, 2.5])
    if rng.random() < 0.3:
        # the destination claims the item at the exit and takes it only later
        case["hold"] = [rng.choice([0, u, 2 * u, 3 * u, 5]) for _ in range(rng.randrange(1, 4))]
    case["T"] = 80
    return case


def gen_odd_length(rng):
    """continuous belts whose length is not a whole number of item lengths (or not whole itself)"""
    c = gen_case(rng, nprod=1, kind="cont")
    il = c["item_length"]
    c["length"] = il * rng.choice([1.5, 2.5]) if il >= 1 else rng.choice([0.5, 1.5, 2.5])
    c["odd_length"] = True
    return c


def gen_real_case(rng):
    """irregular real-valued times and speeds (decimal, not representable exactly): implementation only"""
    c = gen_case(rng)
    c["real"] = True
    if c["kind"] == "cont":
        il = rng.choice([1, 1, 2, 0.4, 0.2, 0.8, 0.1])
        # decimal item lengths whose multiples are whole numbers: 5 x 0.4 = 2, 5 x 0.2 = 1, 5 x 0.8 = 4, 10 x 0.1 = 1 (the belt
        # length is a whole number of item lengths although length / item length is not exact in binary)
        k = rng.choice([1, 2, 3, 4, 5]) if il >= 1 else (10 if il == 0.1 else 5) * rng.choice([1, 1, 2])
        c.update(item_length=il, speed=rng.choice([0.3, 0.7, 1.3, 1.9, 1, 1]), length=float(round(il * k, 9)))
    else:
        c.update(delay=rng.choice([0.1, 0.3, 0.7, 1.3]))
    prods = []
    for g in c["producers"]:
        if isinstance(g, dict):
            g = dict(g); g["poll"] = rng.choice([0.1, 0.07, 0.3]); prods.append(g)
        else:
            prods.append([rng.choice([0, 0.1, 0.2, 0.3, 0.7, 1.3, 2.9]) for _ in g])
    c["producers"] = prods
    c["services"] = [rng.choice([0, 0, 0.1, 0.3, 1.7, 4.9]) for _ in c["services"]]
    c["first_get"] = rng.choice([0, 0.3, 2.9, 7.1])
    c["T"] = 60
    return c


def oracle_real(case, r, eps=1e-6):
    """the C12 clauses with a tolerance, for the real-valued stream -> list of (property, clause, message)"""
    V, items = [], r["items"]
    if r["crash"]:
        return [("C12", "crash", "run raised " + r["crash"])]
    if case["kind"] == "cont":
        u = case["item_length"] / case["speed"]; D = case["length"] / case["speed"]; cap = round(case["length"] / case["item_length"])
    else:
        u = case["delay"]; D = case["cap"] * case["delay"]; cap = case["cap"]
    ids = sorted((i for i in items if "put" in items[i]), key=lambda i: (items[i]["put"], i))
    got = [o[1] for o in r["ops"] if o[0] == "GET"]
    put = [o[1] for o in r["ops"] if o[0] == "PUT"]
    if got != put[:len(got)]:
        V.append(("C12", "order", "items left in order %s but entered in order %s" % (got, put[:len(got)])))
    occ = 0
    for o in r["ops"]:
        if o[0] == "PUT":
            occ += 1
            if occ > cap:
                V.append(("C12", "capacity", "%d items on a belt that holds %d" % (occ, cap)))
                break
        elif o[0] == "GET":
            occ -= 1
    eager = all("out" in items[i] and abs(items[i]["out"] - items[i]["ready"]) < eps for i in ids if "ready" in items[i])
    for n, i in enumerate(ids):
        it = items[i]
        if n > 0 and it["put"] - items[ids[n - 1]]["put"] < u - eps:
            V.append(("C12", "spacing", "items %d and %d entered %s apart, less than one item length of travel (%s)" % (ids[n - 1], i, it["put"] - items[ids[n - 1]]["put"], u)))
        if "ready" in it:
            if it["ready"] < it["put"] + D - eps:
                V.append(("C12", "min-travel", "item %d offered at %s, entered at %s: less than the belt travel time %s" % (i, it["ready"], it["put"], D)))
            if eager and abs(it["ready"] - it["put"] - D) > eps:
                V.append(("C12", "exact-travel", "destination takes every item at once, but item %d travelled %s instead of %s" % (i, it["ready"] - it["put"], D)))
    return V
