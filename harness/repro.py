"""C19: run a list of factory configurations in THIS interpreter (whatever its PYTHONHASHSEED and
allocation history) and print one digest per configuration of the full canonical output."""
import sys, json, hashlib, os, random
sys.path.insert(0, os.path.dirname(os.path.dirname(os.path.abspath(__file__))))
from harness import factory


def digests(cfgs, churn=0):
    junk = [object() for _ in range(churn)]          # perturb the allocator / id() values
    out = []
    for c in cfgs:
        lines = factory.run_impl(c)
        out.append(hashlib.sha256("\n".join(lines).encode()).hexdigest())
    del junk
    return out


if __name__ == "__main__":
    cfgs = json.load(open(sys.argv[1]))
    print(json.dumps(digests(cfgs, int(sys.argv[2]) if len(sys.argv) > 2 else 0)))
