"""C19: run a list of factory configurations in THIS interpreter (whatever its PYTHONHASHSEED and
allocation history) and print one digest per configuration of the full canonical output."""
import sys, json, hashlib, os, random
sys.path.insert(0, os.path.dirname(os.path.dirname(os.path.abspath(__file__))))
from harness import factory


def digests(cfgs, churn=0):
    # perturb the allocator / id() values in EVERY small-object size class (instances, their dicts, lists, tuples, events):
    # identity hashes -- and with them the iteration order of sets / dicts keyed by objects -- follow the low address bits
    class _J:
        def __init__(self, k):
            self.a, self.b = k, [k]
    junk = [object() for _ in range(churn)]
    for k in range(churn % 97):
        junk += [_J(k), {"k": k}, [k] * (k % 9), (k,) * (k % 7 + 1), bytearray(8 * (k % 40)), set([k])]
    out = []
    for c in cfgs:
        lines = factory.run_impl(c)
        out.append(hashlib.sha256("\n".join(lines).encode()).hexdigest())
    del junk
    return out


if __name__ == "__main__":
    cfgs = json.load(open(sys.argv[1]))
    print(json.dumps(digests(cfgs, int(sys.argv[2]) if len(sys.argv) > 2 else 0)))
