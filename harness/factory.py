"""L2 correspondence: whole factories built from the real classes (Source, Machine, Sink, Buffer, Fleet,
...) under the real SimPy kernel, against the extracted Gallina model coq/theories/Factory.
A configuration fixes the construction order, the connect order, all parameters and the delay /
selector streams; both sides produce the same canonical text (timed item movements, draws,
recorded selections, final statistics), which is compared line by line."""
import random, itertools, sys, os, io, contextlib
import simpy
from . import common

NODE_KINDS = ("source", "machine", "sink")


def pol_str(p):
    if p[0] == "RANDOM":
        # the values random.randint returned in the implementation run (recorded), replayed as a stream
        return "S:" + ",".join(str(x) for x in (p[1] if len(p) > 1 and p[1] else [0]))
    if p[0] in ("FA", "RR", "BAD"):
        return p[0]
    if p[0] == "C":
        return "C:%d" % p[1]
    return "S:" + ",".join(str(x) for x in p[1])


def lst(l):
    return ",".join(str(x) for x in l) if l else "-"


def construction_order(cfg):
    """the order in which the implementation side constructs (and so starts the processes of) the components"""
    order = cfg["order"]
    if cfg.get("ctor_edges"):
        # the documented constructor arguments in_edges / out_edges (machines and sinks): edges first, then the nodes with their
        # edge lists in the configuration's order, then connect() as always (it finds the edges already registered)
        order = [c for c in order if c[0] == "E"] + [c for c in order if c[0] == "N"]
    return order


def model_text(cfg):
    out = ["CASE factory %d %d" % (cfg["T"], cfg.get("maxsteps", 6000))]
    for n in cfg["nodes"]:
        out.append("NODE %s %d %d %d %s %s %s %s %s %s %d" % (
            n["kind"], n["setup"], 1 if n["blocking"] else 0, n["wcap"], pol_str(n["insel"]), pol_str(n["outsel"]),
            lst(n["delays"]), lst(n["ins"]), lst(n["outs"]), lst(n.get("recipe", [])), 1 if n.get("pallet") else 0))
    for e in cfg["edges"]:
        if e["kind"] == "buffer":
            out.append("EDGE buffer %d %s %s %d %d" % (e["cap"], e["mode"], lst(e["delays"]), e["src"], e["dst"]))
        else:
            out.append("EDGE fleet %d %d %d %d %d" % (e["cap"], e["fdelay"], e["transit"], e["src"], e["dst"]))
    out.append("ORDER " + " ".join(construction_order(cfg)))
    out.append("END")
    return "\n".join(out) + "\n"


# ------------------------------------------------------------------ implementation side

class Log:
    def __init__(self):
        self.lines = []
        self.env = None
        self.items = []
        self.src_index = {}
        self.node_index = {}
        self.random_draws = {}
        self.moved = {}
        self.stamps, self.keep = {}, []     # id(item) -> last (creation, entry, exit) seen; items kept alive so ids stay unique


class StatsDict(dict):
    """node.stats with a tap on the discard / received counters; the item concerned is read from the
    frame of the node process that increments the counter"""

    def __init__(self, d, log, nidx):
        super().__init__(d)
        self._log, self._n = log, nidx

    def __setitem__(self, k, v):
        if k in ("num_item_discarded", "num_item_received") and (v != self.get(k) or v):
            # every count attempt is an event of the trace -- also one that leaves the counter where it was (`=+ 1`)
            f = sys._getframe(1)
            it = f.f_locals.get("item")
            if k == "num_item_received":
                it = getattr(f.f_locals.get("self"), "item_in_process", it)
            self._log.lines.append("%s %d %d %d" % ("D" if k == "num_item_discarded" else "R", self._log.env.now, self._n,
                                                    getattr(it, "_vidx", -1)))
            if k == "num_item_discarded":
                # implementation-side observation: a node that has one out-edge, or looks at all of them (FIRST_AVAILABLE), drops
                # an item although a conveyor among its out-edges would admit an entry right now (the belt store's own
                # side-effect-free admission test) -- conveyors have no "room" the oracle could count, so this asks the store
                try:
                    node = self._log.nodes[self._n]
                    outs = list(getattr(node, "out_edges", None) or [])
                    pol = self._log.cfg["nodes"][self._n]["outsel"][0]
                    if len(outs) == 1 or pol == "FA":
                        for ed in outs:
                            if hasattr(ed, "belt") and hasattr(ed.belt, "can_reserve_put") and ed.belt.can_reserve_put():
                                self._log.lines.append("OBS %d %d droproom %d 0" % (self._log.env.now, int(ed.id[1:]), self._n))
                except Exception:  # noqa
                    pass
        super().__setitem__(k, v)


def stream(log, nidx, what, values, style):
    """constant / callable / generator over a cyclic list of values; every draw is logged"""
    if style == "const":
        return values[0]
    cyc = itertools.cycle(values)

    def draw():
        v = next(cyc)
        log.lines.append("W %d %d %d" % (nidx, what, v))
        return v
    if style == "callable":
        return draw

    def gen():
        while True:
            yield draw()
    return gen()


def lazy_choice(node, what):
    """a state-dependent user policy: the lowest-index in-edge that can hand over an item now (what = 1) / out-edge that has room
    now (what = 2), edge 0 if none; a pure function of the model's state"""
    eds = node.in_edges if what == 1 else node.out_edges
    for k, ed in enumerate(eds):
        try:
            if (ed.can_get() if what == 1 else ed.can_put()):
                return k
        except Exception:  # noqa
            pass
    return 0


def sel_arg(log, nidx, what, p, style):
    if p[0] == "LZ":
        def choose():
            v = lazy_choice(log.nodes[nidx], what)
            log.lines.append("W %d %d %d" % (nidx, what, v))
            return v
        return choose
    if p[0] == "FA":
        return "FIRST_AVAILABLE"
    if p[0] == "RR":
        return "ROUND_ROBIN"
    if p[0] == "BAD":
        return "NO_SUCH_POLICY"
    if p[0] == "RANDOM":
        return "RANDOM"
    if p[0] == "C":
        return p[1]
    return stream(log, nidx, what, p[1], "callable" if style == "const" else style)



def _construct(cfg, mods, env, log, nodes, edges):
    log.nodes = nodes
    order = construction_order(cfg)
    for c in order:
        i = int(c[1:])
        if c[0] == "N":
            n = cfg["nodes"][i]
            name = "n%d" % i
            st = n.get("style", "const")
            if n["kind"] == "source":
                log.src_index[name] = i
                obj = mods["nodes.source"].Source(env, name, inter_arrival_time=stream(log, i, 0, n["delays"], st),
                                                  blocking=n["blocking"], out_edge_selection=sel_arg(log, i, 2, n["outsel"], st),
                                                  flow_item_type="pallet" if n.get("pallet") else "item")
            elif n["kind"] == "machine":
                kw = {}
                if cfg.get("ctor_edges"):
                    kw = dict(in_edges=[edges[j] for j in n["ins"]], out_edges=[edges[j] for j in n["outs"]])
                obj = mods["nodes.machine"].Machine(env, name, node_setup_time=n["setup"], work_capacity=n["wcap"], **kw,
                                                    processing_delay=stream(log, i, 0, n["delays"], st), blocking=n["blocking"],
                                                    in_edge_selection=sel_arg(log, i, 1, n["insel"], st),
                                                    out_edge_selection=sel_arg(log, i, 2, n["outsel"], st))
            elif n["kind"] == "splitter":
                obj = mods["nodes.splitter"].Splitter(env, name, node_setup_time=n["setup"], processing_delay=stream(log, i, 0, n["delays"], st),
                                                      blocking=n["blocking"], in_edge_selection=sel_arg(log, i, 1, n["insel"], st),
                                                      out_edge_selection=sel_arg(log, i, 2, n["outsel"], st))
            elif n["kind"] == "combiner":
                obj = mods["nodes.combiner"].Combiner(env, name, node_setup_time=n["setup"], target_quantity_of_each_item=list(n["recipe"]),
                                                      processing_delay=stream(log, i, 0, n["delays"], st), blocking=n["blocking"],
                                                      out_edge_selection=sel_arg(log, i, 2, n["outsel"], st))
            else:
                obj = mods["nodes.sink"].Sink(env, name, **(dict(in_edges=[edges[j] for j in n["ins"]]) if cfg.get("ctor_edges") else {}))
            log.node_index[id(obj)] = i
            if n["kind"] == "source":
                obj.node_setup_time = n["setup"]
            obj.stats = StatsDict(obj.stats, log, i)
            nodes[i] = obj
        else:
            e = cfg["edges"][i]
            name = "e%d" % i
            if e["kind"] == "buffer":
                obj = mods["edges.buffer"].Buffer(env, name, capacity=e["cap"], delay=stream(log, 1000 + i, 0, e["delays"], e.get("style", "const")),
                                                  mode=e["mode"])
            elif e["kind"] == "conv":
                # conveyors (implementation-only runs: the factory model has none): unit item length, speed and slot delay,
                # so every time of the run is a whole number
                if e["ckind"] == "cont":
                    obj = common.load("edges.continuous_conveyor").ConveyorBelt(env, name, conveyor_length=e["cap"], speed=1, item_length=1,
                                                                                accumulating=e["acc"])
                else:
                    obj = common.load("edges.slotted_conveyor").ConveyorBelt(env, name, capacity=e["cap"], delay=1, accumulating=e["acc"])
            else:
                num = float if (i % 2) else int        # whole-number delays as int or as float
                obj = mods["edges.fleet"].Fleet(env, name, capacity=e["cap"], delay=num(e["fdelay"]), transit_delay=num(e["transit"]))
            edges[i] = obj
            st = store_of(obj)
            oput, oget = st.put, st.get

            def stamps(it, _i, leaving_node):
                # implementation-side observation of the item's own time stamps at every movement (C18: non-decreasing along
                # the route): none lies in the future, none precedes the creation stamp, none is ever set back, and an item
                # that leaves a node was not stamped 'exit' before it was stamped 'entry'
                c, a, b = (getattr(it, f, None) for f in ("timestamp_creation", "timestamp_node_entry", "timestamp_node_exit"))
                code = 0
                if any(x is not None and x > env.now for x in (c, a, b)):
                    code = 1
                elif c is not None and any(x is not None and x < c for x in (a, b)):
                    code = 2
                elif leaving_node and a is not None and b is not None and b < a:
                    code = 3
                prev = log.stamps.get(id(it))
                if not code and prev and any(x is not None and y is not None and y < x for x, y in zip(prev, (c, a, b))):
                    code = 4
                log.stamps[id(it)] = (c, a, b)
                log.keep.append(it)
                if code:
                    log.lines.append("OBS %d %d stamp %d %d" % (env.now, _i, getattr(it, "_vidx", -1), code))

            def put(ev, item, _o=oput, _i=i):
                r = _o(ev, item)
                it = item[0] if isinstance(item, tuple) else item
                log.lines.append("P %d %d %d" % (env.now, _i, getattr(it, "_vidx", -1)))
                log.moved[_i] = log.moved.get(_i, 0) + 1
                stamps(it, _i, True)
                if isinstance(getattr(it, "items", None), list) and hasattr(it, "_vidx"):
                    # implementation-side observation: what a pallet really carries when it is handed over
                    log.lines.append("OBS %d %d pal %d %d" % (env.now, _i, it._vidx, len(it.items)))
                return r

            def get(ev, _o=oget, _i=i):
                it = _o(ev)
                log.lines.append("T %d %d %d" % (env.now, _i, getattr(it, "_vidx", -1)))
                log.moved[_i] = log.moved.get(_i, 0) - 1
                stamps(it, _i, False)
                return it
            st.put, st.get = put, get
            ocp, ocg = st.reserve_put_cancel, st.reserve_get_cancel

            def cput(ev, _o=ocp, _i=i, _st=st):
                # implementation-side observation (OBS lines are never compared with the model): a GRANTED request is withdrawn
                if any(ev is x for x in _st.reservations_put):
                    log.lines.append("OBS %d %d cputg 0 0" % (env.now, _i))
                return _o(ev)

            def cget(ev, _o=ocg, _i=i, _st=st):
                if any(ev is x for x in _st.reservations_get):
                    log.lines.append("OBS %d %d cgetg 0 0" % (env.now, _i))
                return _o(ev)
            st.reserve_put_cancel, st.reserve_get_cancel = cput, cget
            dn, sn = cfg["nodes"][e["dst"]], cfg["nodes"][e["src"]]
            if dn["insel"][0] == "LZ" or (sn["outsel"][0] == "LZ" and sn["kind"] == "machine"):
                # implementation-side observation: a node with a state-dependent policy must request the edge its policy names
                # AT THE INSTANT OF THE REQUEST (the policy is consulted when it is acted upon, not earlier)
                org, orp = st.reserve_get, st.reserve_put

                def rget(*a, _o=org, _i=i, _d=e["dst"], **kw):
                    if cfg["nodes"][_d]["insel"][0] == "LZ" and cfg["nodes"][_d]["ins"].index(_i) != lazy_choice(nodes[_d], 1):
                        log.lines.append("OBS %d %d stale %d 1" % (env.now, _i, _d))
                    return _o(*a, **kw)

                def rput(*a, _o=orp, _i=i, _s=e["src"], **kw):
                    if cfg["nodes"][_s]["outsel"][0] == "LZ" and cfg["nodes"][_s]["outs"].index(_i) != lazy_choice(nodes[_s], 2):
                        log.lines.append("OBS %d %d stale %d 2" % (env.now, _i, _s))
                    return _o(*a, **kw)
                st.reserve_get, st.reserve_put = rget, rput
    for (ei, s, d) in cfg["connects"]:
        edges[ei].connect(nodes[s], nodes[d])
    for ei in cfg.get("reconnect", []):
        if isinstance(ei, (list, tuple)):
            # the documented `reconnect=True` moving an edge to other end points (implementation-only runs: the edge stays
            # listed at the nodes it leaves, which the model does not represent)
            edges[ei[0]].connect(nodes[ei[1]], nodes[ei[2]], reconnect=True)
            continue
        # ... and with the SAME end points: a no-op (the edge keeps its place in its nodes' edge lists)
        e = cfg["edges"][ei]
        edges[ei].connect(nodes[e["src"]], nodes[e["dst"]], reconnect=True)



def store_of(ed):
    return ed.belt if hasattr(ed, "belt") else ed.inbuiltstore


def _observe(env, edges, log):
    """end of a simulated instant: OBS lines (implementation side only, read by the oracle, never
    compared with the model) for every edge on which a request waits although it could be served"""
    for i, ed in edges.items():
        st = store_of(ed)
        free = st.capacity - len(st.items) - len(st.ready_items) - len(st.reservations_put)
        if st.reserve_put_queue and free > 0 and not hasattr(ed, "belt"):      # a belt's entrance opens by the passage of time
            log.lines.append("OBS %d %d put %d %d" % (env.now, i, len(st.reserve_put_queue), free))
        if hasattr(ed, "belt") and st.reserve_put_queue and not st.reservations_put and hasattr(st, "can_reserve_put"):
            # ... so the belt store's own side-effect-free admission test is asked instead
            try:
                if st.can_reserve_put():
                    log.lines.append("OBS %d %d put %d %d" % (env.now, i, len(st.reserve_put_queue), max(free, 1)))
            except Exception:  # noqa
                pass
        avail = len(st.ready_items) - len(st.reservations_get)
        if st.reserve_get_queue and avail > 0:
            log.lines.append("OBS %d %d get %d %d" % (env.now, i, len(st.reserve_get_queue), avail))
        # what the edge really holds against what went in and out through its put / get
        moved = log.moved.get(i, 0)
        if len(st.items) + len(st.ready_items) != moved:
            log.lines.append("OBS %d %d occ %d %d" % (env.now, i, len(st.items) + len(st.ready_items), moved))


def run_impl(cfg):
    """returns the canonical output lines of the implementation"""
    mods = {k: common.load(k) for k in ("nodes.source", "nodes.machine", "nodes.sink", "nodes.splitter", "nodes.combiner", "edges.buffer", "edges.fleet",
                                         "base.buffer_store", "base.fleet_store", "nodes.node", "edges.edge")}
    if any(e.get("kind") == "conv" for e in cfg["edges"]):
        for k in ("base.belt_store", "base.slotted_belt_store", "edges.continuous_conveyor", "edges.slotted_conveyor"):
            common.load(k)
    log = Log()
    env = simpy.Environment()
    log.env = env
    log.cfg = cfg
    srcmod = mods["nodes.source"]
    BaseItem, BasePallet = srcmod.Item, srcmod.Pallet
    utils = common.load("utils.utils")
    import random as _random
    _random.seed(cfg.get("seed", 12345))

    class RandomTap:
        """utils.random with a tap: RANDOM selections are logged like any other selector draw"""
        def __getattr__(self, k):
            return getattr(_random, k)

        def randint(self, a, b):
            v = _random.randint(a, b)
            f = sys._getframe(1)
            node, et = f.f_locals.get("node"), f.f_locals.get("edge_type")
            n = log.node_index.get(id(node), -1)
            log.lines.append("W %d %d %d" % (n, 1 if et == "in" else 2, v))
            log.random_draws.setdefault((n, 1 if et == "in" else 2), []).append(v)
            return v
    utils.random = RandomTap()

    def mk(base):
        class Logged(base):
            def __init__(self, id):
                super().__init__(id)
                self._vidx = len(log.items)
                log.items.append(self)
                name = id.split("_", 1)[1].rsplit("_", 1)[0]
                log.lines.append("G %d %d %d" % (env.now, log.src_index.get(name, -1), self._vidx))
        if hasattr(base, "add_item"):
            def add_item(self, item, _b=base):
                f = sys._getframe(1)
                node = f.f_locals.get("self")
                r = _b.add_item(self, item)
                its = getattr(self, "items", None)
                if its is None or (its and its[-1] is item):
                    # a pack is an event of the trace only if the item really is on the pallet now (last of its contents)
                    log.lines.append("K %d %d %d %d" % (env.now, log.node_index.get(id(node), -1), self._vidx, getattr(item, "_vidx", -1)))
                return r
            Logged.add_item = add_item
        Logged.__name__ = base.__name__
        return Logged
    LItem, LPallet = mk(BaseItem), mk(BasePallet)
    srcmod.Item, srcmod.Pallet = LItem, LPallet
    out = []
    crash = None
    try:
        nodes, edges = {}, {}
        try:
            _construct(cfg, mods, env, log, nodes, edges)
        except Exception as ex:  # noqa  -- a constructor / connect rejected the configuration
            return ["CRASH " + type(ex).__name__, "AT-CONSTRUCTION"]
        try:
            steps, budget = 0, cfg.get("maxsteps", 6000)
            while env.peek() < cfg["T"] and steps < budget:
                env.step()
                steps += 1
                if env.peek() > env.now:
                    _observe(env, edges, log)
            if steps >= budget:
                crash = "EXHAUSTED"
            elif cfg["T"] > env.now:
                env.run(until=cfg["T"])
        except Exception as ex:  # noqa
            # the class is what is compared with the model; the message (one line) is kept for the oracle
            import re as _re
            crash = type(ex).__name__ + " " + _re.sub(r"0x[0-9a-fA-F]+", "0x", " ".join(str(ex).split()))[:160]
        out += [l for l in log.lines if not (l.startswith("W ") and int(l.split()[1]) >= 1000)]   # edge delay draws: not logged by the model
        if crash == "EXHAUSTED":
            return ["EXHAUSTED"]
        if crash:
            out.append("CRASH " + crash)
        for i, n in enumerate(cfg["nodes"]):
            nd = nodes[i]
            try:
                nd.update_final_state_time(cfg["T"])
                fin = True
            except Exception:  # noqa
                fin = False
            s = nd.stats
            if not fin:
                out.append("NODE %d FINALIZE-ERROR gen=%d disc=%d procd=%d recv=%d" % (
                    i, s.get("num_item_generated", 0), s.get("num_item_discarded", 0), s.get("num_item_processed", 0), s.get("num_item_received", 0)))
                continue
            ts = s["total_time_spent_in_states"]
            if n["kind"] == "source":
                tstate = [ts["SETUP_STATE"], ts["GENERATING_STATE"], ts["BLOCKED_STATE"]]
                occ, sp, sb = [], 0, 0
            elif n["kind"] in ("splitter", "combiner"):
                tstate = [ts["SETUP_STATE"], ts["IDLE_STATE"], ts["PROCESSING_STATE"], ts["BLOCKED_STATE"]]
                occ = nd.time_per_work_occupancy
                sp = nd.per_thread_total_time_in_processing_state * nd.work_capacity
                sb = nd.per_thread_total_time_in_blocked_state * nd.work_capacity
            elif n["kind"] == "machine":
                tstate = [ts["SETUP_STATE"], ts["IDLE_STATE"], ts["ATLEAST_ONE_PROCESSING_STATE"], ts["ALL_ACTIVE_BLOCKED_STATE"],
                          ts["ALL_ACTIVE_PROCESSING_STATE"], ts["ATLEAST_ONE_BLOCKED_STATE"]]
                occ = nd.time_per_work_occupancy
                sp = nd.per_thread_total_time_in_processing_state * nd.work_capacity
                sb = nd.per_thread_total_time_in_blocked_state * nd.work_capacity
            else:
                tstate = [ts["COLLECTING_STATE"]]
                occ, sp, sb = [], 0, 0
            out.append("NODE %d gen=%d disc=%d procd=%d recv=%d cycle=%s tstate=%s occ=%s sumproc=%s sumblk=%s" % (
                i, s.get("num_item_generated", 0), s.get("num_item_discarded", 0), s.get("num_item_processed", 0),
                s.get("num_item_received", 0), num(s.get("total_cycle_time", 0)), ",".join(num(x) for x in tstate),
                ",".join(num(x) for x in occ), num(sp), num(sb)))
            for key, flag in (("in_edge_selection", 0), ("out_edge_selection", 1)):
                for v in s.get(key, []) or []:
                    out.append("S %d %d %d" % (i, flag, v))
            il = getattr(nd, "item_list", None)
            if isinstance(il, dict) and il:
                # the sink's per-item conveyor record (implementation side only; part of the reproducibility digest): its size
                # and a digest of its keys and values
                import zlib
                out.append("OBS %d %d ilist %d %d" % (cfg["T"], i, len(il), zlib.crc32(repr(sorted((str(k), str(v)) for k, v in il.items())).encode()) % 1000000007))
        for i, e in enumerate(cfg["edges"]):
            ed = edges[i]
            st = store_of(ed)
            if e["kind"] == "buffer":
                ed.update_final_buffer_avg_content(cfg["T"])
            elif e["kind"] == "conv":
                ed.update_final_conveyor_avg_content(cfg["T"])
            else:
                ed.update_final_fleet_avg_content(cfg["T"])
            out.append("EDGE %d wsum=%s transit=%s ready=%s res=%d,%d,%d,%d" % (
                i, num(st._weighted_sum), ",".join(str(getattr(x[0] if isinstance(x, tuple) else x, "_vidx", -1)) for x in st.items),
                ",".join(str(getattr(x, "_vidx", -1)) for x in st.ready_items),
                len(st.reserve_put_queue), len(st.reservations_put), len(st.reserve_get_queue), len(st.reservations_get)))
    finally:
        srcmod.Item, srcmod.Pallet = BaseItem, BasePallet
        utils.random = _random
    # hand the recorded RANDOM draws to the model as streams
    for (n, what), vals in log.random_draws.items():
        if 0 <= n < len(cfg["nodes"]):
            key = "insel" if what == 1 else "outsel"
            if cfg["nodes"][n][key][0] == "RANDOM":
                cfg["nodes"][n][key] = ("RANDOM", vals + [0])
    return out


def num(x):
    """exact integers print as integers; anything else with 9 significant digits"""
    if isinstance(x, bool):
        return str(int(x))
    if isinstance(x, int):
        return str(x)
    if abs(x - round(x)) < 1e-9:
        return str(int(round(x)))
    return "%.9g" % x


def canon_model(lines):
    """model output -> same canonical form: D/R without the item, S lines moved behind their NODE line"""
    out, sel = [], {}
    for l in lines:
        w = l.split()
        if w[0] == "T":
            out.append(" ".join(w[:4]))
        elif w[0] == "S":
            sel.setdefault(int(w[1]), []).append(l)
        elif w[0] == "W" and False:
            pass
        else:
            out.append(l)
    res = []
    for l in out:
        res.append(l)
        if l.startswith("NODE "):
            n = int(l.split()[1])
            s = sel.get(n, [])
            res += [x for x in s if x.split()[2] == "0"] + [x for x in s if x.split()[2] == "1"]
    return res


def strip_const_draws(cfg, lines):
    """draws from constant streams are not observable on the implementation side"""
    out = []
    for l in lines:
        w = l.split()
        if w[0] == "W":
            n, what = int(w[1]), int(w[2])
            nd = cfg["nodes"][n]
            st = nd.get("style", "const")
            if what == 0 and st == "const":
                continue
        out.append(l)
    return out


def compare(cfg, impl, model):
    ci = [l for l in impl if l.startswith("CRASH")]
    cm = [l for l in model if l.startswith("CRASH")]
    if ci or cm:
        # an unhandled exception: both sides must crash with the same exception class (the suffix of
        # the trace inside the crashing instant is not compared)
        a = ci[0].split()[1] if ci else None
        b = cm[0].split()[1].split("@")[0].split("(")[0] if cm else None
        return None if a == b else (0, ci[:1] or impl[-1:], cm[:1] or model[-1:])
    if impl == ["EXHAUSTED"] or "EXHAUSTED" in model:
        # a zero-time livelock / step budget: both sides must agree that the run does not finish
        return None if (impl == ["EXHAUSTED"]) == ("EXHAUSTED" in model) else (0, impl[:1], [l for l in model if l == "EXHAUSTED"][:1])
    m = strip_const_draws(cfg, canon_model(model))
    i = [l for l in strip_const_draws(cfg, impl) if not l.startswith("OBS ")]
    for k, (a, b) in enumerate(itertools.zip_longest(i, m)):
        if a != b:
            return (k, a, b)
    return None


def diff_kinds(cfg, impl, model):
    """kinds (first word) of all canonical lines on which the two sides differ, as multisets"""
    import collections
    if any(l.startswith(("CRASH", "EXHAUSTED")) for l in impl + model):
        return set()
    m = collections.Counter(strip_const_draws(cfg, canon_model(model)))
    i = collections.Counter(l for l in strip_const_draws(cfg, impl) if not l.startswith("OBS "))
    return {l.split()[0] for l in list((i - m).keys()) + list((m - i).keys()) if l}


def run_batch(cfgs):
    impls = []
    for c in cfgs:
        impls.append(run_impl(c))
    outs = common.run_driver("".join(model_text(c) for c in cfgs))
    res = []
    for c, i, m in zip(cfgs, impls, outs):
        d = compare(c, i, m)
        res.append(dict(case=c, impl=i, model=m, dis=d, kinds=diff_kinds(c, i, m) if d else set()))
    return res


# ------------------------------------------------------------------ generation

def gen_policy(rng, k, allow_bad=False):
    r = rng.random()
    if r < 0.4:
        return ("FA",)
    if r < 0.55:
        return ("RR",)
    if r < 0.62 and k > 1:
        return ("RANDOM",)
    if r < 0.75:
        return ("C", rng.randrange(k))
    return ("S", [rng.randrange(k) for _ in range(rng.choice([1, 2, 3, 5]))])


def gen_config_conv_fanout(rng):
    """source -> buffer -> multi-worker FIRST_AVAILABLE machine -> {small buffer -> slow machine -> sink, conveyor -> sink}:
    workers that finish together, are granted room on several out-edges, commit to one and withdraw the others"""
    def nd(kind, **kw):
        d = dict(kind=kind, ins=[], outs=[], style="const", blocking=True, setup=0, wcap=1, insel=("FA",), outsel=("FA",), delays=[0])
        d.update(kw)
        return d
    nodes = [nd("source", delays=[rng.choice([1, 1, 2])], blocking=rng.random() < 0.8),
             nd("machine", wcap=rng.choice([2, 2, 3]), setup=rng.choice([2, 3, 5]), delays=[rng.choice([1, 2, 2, 3])],
                blocking=rng.random() < 0.85, outsel=rng.choice([("FA",), ("FA",), ("FA",), ("RR",)])),
             nd("machine", delays=[rng.choice([5, 7, 9])], setup=rng.choice([0, 0, 60])),
             nd("sink"), nd("sink")]
    conv = dict(kind="conv", ckind=rng.choice(["cont", "slot", "slot"]), cap=rng.choice([1, 2, 3]), acc=rng.choice([0, 1]), src=1, dst=4)
    small = dict(kind="buffer", cap=rng.choice([1, 1, 2]), mode="FIFO", delays=[rng.choice([0, 0, 2])], style="const", src=1, dst=2)
    outs = [small, conv] if rng.random() < 0.7 else [conv, small]
    edges = [dict(kind="buffer", cap=rng.choice([3, 4, 6]), mode="FIFO", delays=[0], style="const", src=0, dst=1)] + outs + \
            [dict(kind="buffer", cap=2, mode="FIFO", delays=[0], style="const", src=2, dst=3)]
    connects = [(i, e["src"], e["dst"]) for i, e in enumerate(edges)]
    for (i, s_, d_) in connects:
        nodes[s_]["outs"].append(i)
        nodes[d_]["ins"].append(i)
    order = ["N%d" % i for i in range(len(nodes))] + ["E%d" % i for i in range(len(edges))]
    rng.shuffle(order)
    return dict(model="factory", T=rng.choice([20, 30, 40]), nodes=nodes, edges=edges, connects=connects, order=order, model_skip=True)


def gen_config_moved(rng):
    """a factory in which one edge of a node with three or more edges on a side is moved to another node with `reconnect=True`
    (implementation only; used by the reproducibility runs)"""
    for _ in range(200):
        c = gen_config(rng, with_fleet=False)
        c.pop("reconnect", None)
        outs3 = [(i, n_) for i, n_ in enumerate(c["nodes"]) if len(n_["outs"]) >= 3]
        ins3 = [(i, n_) for i, n_ in enumerate(c["nodes"]) if len(n_["ins"]) >= 3]
        if outs3:
            i, n_ = rng.choice(outs3)
            ei = rng.choice(n_["outs"][:-1])
            others = [j for j, m in enumerate(c["nodes"]) if j != i and m["kind"] == "machine"]
            if others:
                c["reconnect"] = [[ei, rng.choice(others), c["edges"][ei]["dst"]]]
        elif ins3:
            i, n_ = rng.choice(ins3)
            ei = rng.choice(n_["ins"][:-1])
            others = [j for j, m in enumerate(c["nodes"]) if j != i and m["kind"] == "machine"]
            if others:
                c["reconnect"] = [[ei, c["edges"][ei]["src"], rng.choice(others)]]
        if c.get("reconnect"):
            c["model_skip"] = True
            return c
    c["model_skip"] = True
    return c


def gen_config_lazy(rng):
    """machines whose in- / out-edge policy is a user callable that looks at the state of the model (lowest-index edge that can
    serve now): the model has streams only, so these run on the implementation alone"""
    for _ in range(20):
        c = gen_config(rng, with_fleet=rng.random() < 0.2)
        hit = False
        for n in c["nodes"]:
            if n["kind"] == "machine" and len(n["ins"]) > 1 and rng.random() < 0.8:
                n["insel"], hit = ("LZ",), True
            if n["kind"] == "machine" and len(n["outs"]) > 1 and n["blocking"] and rng.random() < 0.5:
                n["outsel"], hit = ("LZ",), True
        if hit:
            break
    c["model_skip"] = True
    return c


def gen_config_conv_queue(rng):
    """source -> buffer -> multi-worker machine -> ONE congested conveyor -> slow machine -> buffer -> sink: several workers of one
    node wait for the same belt entrance at once (the entrance's waiting line has more than one request of equal priority)"""
    def nd(kind, **kw):
        d = dict(kind=kind, ins=[], outs=[], style="const", blocking=True, setup=0, wcap=1, insel=("FA",), outsel=("FA",), delays=[0])
        d.update(kw)
        return d
    nodes = [nd("source", delays=[1]), nd("machine", wcap=rng.choice([2, 3, 3]), delays=[rng.choice([1, 2])], setup=rng.choice([0, 2, 4]),
                                          outsel=rng.choice([("FA",), ("C", 0), ("RR",)])),
             nd("machine", delays=[rng.choice([4, 5, 7])]), nd("sink")]
    edges = [dict(kind="buffer", cap=rng.choice([3, 4, 6]), mode="FIFO", delays=[0], style="const", src=0, dst=1),
             dict(kind="conv", ckind=rng.choice(["slot", "slot", "cont"]), cap=rng.choice([1, 2, 3]), acc=rng.choice([0, 1]), src=1, dst=2),
             dict(kind="buffer", cap=2, mode="FIFO", delays=[0], style="const", src=2, dst=3)]
    connects = [(i, e["src"], e["dst"]) for i, e in enumerate(edges)]
    for (i, s_, d_) in connects:
        nodes[s_]["outs"].append(i)
        nodes[d_]["ins"].append(i)
    order = ["N%d" % i for i in range(len(nodes))] + ["E%d" % i for i in range(len(edges))]
    rng.shuffle(order)
    return dict(model="factory", T=rng.choice([30, 40]), nodes=nodes, edges=edges, connects=connects, order=order, model_skip=True)


def gen_config_conv_series(rng):
    """source -> conveyor A -> multi-worker machine -> conveyor B -> sink: items that have been on a conveyor before enter the
    second belt in bursts (two workers finishing together)"""
    def nd(kind, **kw):
        d = dict(kind=kind, ins=[], outs=[], style="const", blocking=True, setup=0, wcap=1, insel=("FA",), outsel=("FA",), delays=[0])
        d.update(kw)
        return d
    # alternating long / short processing times: workers that started one after the other finish in the same instant
    nodes = [nd("source", delays=[1]), nd("machine", wcap=rng.choice([2, 2, 3]), delays=rng.choice([[3, 2], [2, 1], [4, 3, 2], [3, 1, 2]]),
                                          style=rng.choice(["callable", "generator"]), setup=rng.choice([0, 3])),
             nd("sink")]
    def cv(s_, d_):
        return dict(kind="conv", ckind=rng.choice(["slot", "cont"]), cap=rng.choice([1, 2, 3]), acc=rng.choice([0, 1]), src=s_, dst=d_)
    edges = [cv(0, 1), cv(1, 2)]
    connects = [(i, e["src"], e["dst"]) for i, e in enumerate(edges)]
    for (i, s_, d_) in connects:
        nodes[s_]["outs"].append(i)
        nodes[d_]["ins"].append(i)
    order = ["N%d" % i for i in range(len(nodes))] + ["E%d" % i for i in range(len(edges))]
    rng.shuffle(order)
    return dict(model="factory", T=rng.choice([20, 30]), nodes=nodes, edges=edges, connects=connects, order=order, model_skip=True)


def gen_config_conv(rng):
    """a factory in which some edges are conveyors: run on the implementation only and judged by the oracle"""
    if rng.random() < 0.12:
        return gen_config_conv_queue(rng)
    if rng.random() < 0.1:
        return gen_config_conv_series(rng)
    if rng.random() < 0.25:
        return gen_config_conv_fanout(rng)
    sc = rng.random() < 0.3
    c = gen_config_sc(rng) if sc else gen_config(rng, with_fleet=rng.random() < 0.3)
    pallet_in = set(n["ins"][0] for n in c["nodes"] if n["kind"] == "combiner" and n["ins"])
    k = 0
    for i, e in enumerate(c["edges"]):
        # the splitter and the combiner accept Buffer out-edges only ("Unsupported edge type" otherwise)
        if e["kind"] == "buffer" and i not in pallet_in and c["nodes"][e["src"]]["kind"] not in ("splitter", "combiner") \
                and (k == 0 or rng.random() < 0.4):
            src, dst = e["src"], e["dst"]
            e.clear()
            e.update(kind="conv", ckind=rng.choice(["cont", "cont", "slot"]), cap=rng.choice([1, 2, 3, 4]), acc=rng.choice([0, 1]), src=src, dst=dst)
            k += 1
    for n in c["nodes"]:
        # whole-number times only (the canonical trace prints integer times)
        n["delays"] = [int(d) for d in n["delays"]]
    c["model_skip"] = True
    return c


def gen_config(rng, with_fleet=False):
    n_src = rng.choice([1, 1, 2, 2, 3])
    layers = [[("source", None) for _ in range(n_src)]]
    for _ in range(rng.choice([0, 1, 1, 2])):
        layers.append([("machine", None) for _ in range(rng.choice([1, 1, 2, 3]))])
    layers.append([("sink", None) for _ in range(rng.choice([1, 1, 1, 2]))])
    nodes, idx = [], []
    for L in layers:
        row = []
        for kind, _ in L:
            row.append(len(nodes))
            nodes.append(dict(kind=kind, ins=[], outs=[]))
        idx.append(row)
    pairs = []
    for a, b in zip(idx, idx[1:]):
        conn = set()
        for x in a:
            conn.add((x, rng.choice(b)))
        for y in b:
            if not any(p[1] == y for p in conn):
                conn.add((rng.choice(a), y))
        if rng.random() < 0.4:
            conn.add((rng.choice(a), rng.choice(b)))
        pairs += sorted(conn)
        if rng.random() < 0.2:
            pairs.append(rng.choice(sorted(conn)))      # a second, parallel edge between two nodes (fan-in / fan-out of 3 and more)
    edges = []
    for (s, d) in pairs:
        if with_fleet and rng.random() < 0.35:
            edges.append(dict(kind="fleet", cap=rng.choice([1, 2, 3, 4]), fdelay=rng.choice([1, 2, 3, 5]), transit=rng.choice([0, 0, 1, 2]), src=s, dst=d))
        else:
            edges.append(dict(kind="buffer", cap=rng.choice([1, 1, 2, 3, 4]), mode=rng.choice(["FIFO", "FIFO", "LIFO"]),
                              delays=rng.choice([[0], [0], [1], [2], [0, 1, 3], [2, 0]]), style=rng.choice(["const", "callable", "generator"]),
                              src=s, dst=d))
        if edges[-1]["kind"] == "buffer" and edges[-1]["style"] == "const":
            edges[-1]["delays"] = edges[-1]["delays"][:1]
    connects = [(i, e["src"], e["dst"]) for i, e in enumerate(edges)]
    rng.shuffle(connects)
    for (i, s, d) in connects:
        nodes[s]["outs"].append(i)
        nodes[d]["ins"].append(i)
    for n in nodes:
        n["style"] = rng.choice(["const", "callable", "generator"])
        n["blocking"] = rng.random() < 0.6
        n["setup"] = rng.choice([0, 0, 1, 2, 0, 0, 1, 2, 0, 1, 2, 15, 60])   # now and then longer than the horizon
        n["wcap"] = rng.choice([1, 1, 2, 3]) if n["kind"] == "machine" else 1
        n["insel"] = gen_policy(rng, max(1, len(n["ins"]))) if n["kind"] == "machine" else ("FA",)
        n["outsel"] = gen_policy(rng, max(1, len(n["outs"]))) if n["kind"] != "sink" else ("FA",)
        if n["kind"] == "source":
            n["delays"] = rng.choice([[1], [2], [1, 2], [3, 1, 1], [0, 1] if n["blocking"] else [1, 1], [2, 5]])
            if n["delays"][0] == 0 and (not n["blocking"] or n["style"] == "const"):
                n["delays"] = [1] + n["delays"][1:]
        elif n["kind"] == "machine":
            n["delays"] = rng.choice([[0], [1], [2], [1, 3], [0, 2, 4], [3], [5], [7]])
        else:
            n["delays"] = [0]
        if n["style"] == "const":
            n["delays"] = n["delays"][:1]
    order = ["N%d" % i for i in range(len(nodes))] + ["E%d" % i for i in range(len(edges))]
    rng.shuffle(order)
    cfg = dict(model="factory", T=rng.choice([10, 20, 30, 40, 10, 20, 30, 40, 3]), nodes=nodes, edges=edges, connects=connects, order=order)
    if rng.random() < 0.25:
        cfg["ctor_edges"] = True
    if rng.random() < 0.2:
        # re-connect (same end points) an edge of a node with several edges on one side, preferably not the last of them
        cand = [e_ for n_ in nodes for side in ("ins", "outs") if len(n_[side]) > 1 for e_ in n_[side][:-1]]
        if cand:
            cfg["reconnect"] = sorted(set(rng.sample(cand, min(len(cand), rng.choice([1, 1, 2])))))
    return cfg


def gen_config_csc(rng):
    """pack, unpack, pack again: pallet source + item source -> combiner (q items per pallet) -> splitter that routes the q items to
    its out-edge 1 and the emptied pallet to its out-edge 0 (a cyclic user policy) -> second combiner (same recipe) -> sink: the items
    the second combiner packs have been on a pallet before"""
    q = rng.choice([1, 2, 2, 3])
    def nd(kind, **kw):
        d = dict(kind=kind, ins=[], outs=[], recipe=[], pallet=False, style="const", blocking=True, setup=rng.choice([0, 0, 1]), wcap=1,
                 insel=("FA",), outsel=("FA",), delays=[0])
        d.update(kw)
        return d
    st = rng.choice(["callable", "generator"])
    nodes = [nd("source", pallet=True, delays=[rng.choice([1, 2])], setup=0), nd("source", delays=[1], setup=0),
             nd("combiner", recipe=[0, q], delays=[rng.choice([0, 1])], outsel=rng.choice([("FA",), ("C", 0)])),
             nd("splitter", delays=[rng.choice([0, 1])], outsel=("S", [1] * q + [0]), style=st),
             nd("combiner", recipe=[0, q], delays=[rng.choice([0, 1, 2])]), nd("sink", setup=0)]
    def buf(s_, d_, cap):
        return dict(kind="buffer", cap=cap, mode="FIFO", delays=[0], style="const", src=s_, dst=d_)
    edges = [buf(0, 2, rng.choice([1, 2, 3])), buf(1, 2, rng.choice([2, 4])), buf(2, 3, rng.choice([1, 2])),
             buf(3, 4, rng.choice([1, 2, 3])), buf(3, 4, rng.choice([q, q + 1, 2 * q + 1])), buf(4, 5, rng.choice([1, 3]))]
    connects = [(i, e["src"], e["dst"]) for i, e in enumerate(edges)]
    for (i, s_, d_) in connects:
        nodes[s_]["outs"].append(i)
        nodes[d_]["ins"].append(i)
    order = ["N%d" % i for i in range(len(nodes))] + ["E%d" % i for i in range(len(edges))]
    rng.shuffle(order)
    return dict(model="factory", T=rng.choice([25, 40]), nodes=nodes, edges=edges, connects=connects, order=order)


def gen_config_sc(rng):
    """factories with pallets: pallet source + item sources -> combiner -> (machine) -> splitter -> sinks"""
    if rng.random() < 0.1:
        return gen_config_csc(rng)
    nodes, edges = [], []

    def node(kind, **kw):
        d = dict(kind=kind, ins=[], outs=[], recipe=[], pallet=False)
        d.update(kw)
        nodes.append(d)
        return len(nodes) - 1

    def edge(s, d, fleet_ok=False):
        if fleet_ok and rng.random() < 0.35:
            edges.append(dict(kind="fleet", cap=rng.choice([2, 3, 4]), fdelay=rng.choice([1, 2, 3, 5]), transit=rng.choice([0, 0, 1, 2]), src=s, dst=d))
            return len(edges) - 1
        edges.append(dict(kind="buffer", cap=rng.choice([1, 2, 2, 3, 4]), mode=rng.choice(["FIFO", "FIFO", "LIFO"]),
                          delays=rng.choice([[0], [0], [1], [2], [0, 1]]), style=rng.choice(["const", "callable", "generator"]), src=s, dst=d))
        if edges[-1]["style"] == "const":
            edges[-1]["delays"] = edges[-1]["delays"][:1]
        return len(edges) - 1
    shape = rng.choice(["comb", "split", "both", "both"])
    pallet_edges = set()
    ps = node("source", pallet=True)
    last = ps
    if shape in ("comb", "both"):
        k = rng.choice([1, 1, 2])
        srcs = [node("source") for _ in range(k)]
        c = node("combiner", recipe=[0] + [rng.choice([0, 1, 1, 2, 3]) for _ in range(k)])
        pallet_edges.add(edge(ps, c))
        for s_ in srcs:
            edge(s_, c, fleet_ok=True)
        last = c
        if rng.random() < 0.3:
            # a second combiner packs more items onto the pallets of the first
            s2 = node("source")
            c2 = node("combiner", recipe=[0, rng.choice([1, 2, 3])])
            pallet_edges.add(edge(c, c2))
            edge(s2, c2)
            last = c2
    if shape in ("both",) and rng.random() < 0.4:
        m = node("machine")
        edge(last, m)
        last = m
    if shape in ("split", "both"):
        sp = node("splitter")
        edge(last, sp)
        if rng.random() < 0.35:
            # a second in-edge: (empty) pallets straight from a pallet source of their own, so that the splitter has to choose
            ps2 = node("source", pallet=True)
            edge(ps2, sp)
            if rng.random() < 0.5:
                # ... and a third (loops over the in-edges that go wrong only from the third edge on)
                ps3 = node("source", pallet=True)
                edge(ps3, sp)
        last = sp
    fan = rng.choice([1, 1, 2, 2, 3, 3])
    for _ in range(fan):
        if rng.random() < (0.5 if fan < 3 else 0.8):
            # a slow consumer behind a small buffer: congestion on this out-edge (with three branches mostly all of them, so
            # that the node has to fall back on its last out-edge)
            m = node("machine", slow=True)
            edge(last, m)
            if fan == 3 and edges[-1]["kind"] == "buffer":
                edges[-1]["cap"] = rng.choice([1, 1, 2])
            sk = node("sink")
            edge(m, sk)
        else:
            sk = node("sink")
            edge(last, sk)
    # connect order: the combiner's pallet edge must be its in-edge 0
    connects = [(i, e["src"], e["dst"]) for i, e in enumerate(edges)]
    pallet_first = [c for c in connects if c[0] in pallet_edges]
    rest = [c for c in connects if c not in pallet_first]
    rng.shuffle(rest)
    connects = pallet_first + rest
    for (i, s, d) in connects:
        nodes[s]["outs"].append(i)
        nodes[d]["ins"].append(i)
    for n in nodes:
        n["style"] = rng.choice(["const", "callable", "generator"])
        n["blocking"] = rng.random() < 0.65
        n["setup"] = rng.choice([0, 0, 1, 2, 0, 0, 1, 2, 0, 1, 2, 15, 60])   # now and then longer than the horizon
        n["wcap"] = rng.choice([1, 2]) if n["kind"] == "machine" else 1
        n["insel"] = gen_policy(rng, max(1, len(n["ins"]))) if n["kind"] in ("machine", "splitter") else ("FA",)
        n["outsel"] = gen_policy(rng, max(1, len(n["outs"]))) if n["kind"] != "sink" else ("FA",)
        if n["kind"] == "source":
            n["delays"] = rng.choice([[1], [2], [1, 2], [3, 1, 1], [2, 5]])
            if n["blocking"] and n["style"] != "const" and n["setup"] == 0 and rng.random() < 0.15:
                # a blocking source may release items with no time in between (documented: zero inter-arrival is invalid for
                # non-blocking sources only): items created at simulated time 0
                n["delays"] = rng.choice([[0, 2], [0, 0, 3], [0, 1, 1]])
        elif n["kind"] in ("machine", "splitter", "combiner"):
            n["delays"] = rng.choice([[0], [1], [2], [1, 3], [0, 2]])
            if n.get("slow"):
                n["delays"] = rng.choice([[4], [6], [3, 7]])
        else:
            n["delays"] = [0]
        if n["style"] == "const":
            n["delays"] = n["delays"][:1]
        n.pop("slow", None)
    order = ["N%d" % i for i in range(len(nodes))] + ["E%d" % i for i in range(len(edges))]
    rng.shuffle(order)
    return dict(model="factory", T=rng.choice([15, 25, 40]), nodes=nodes, edges=edges, connects=connects, order=order)


def monitor_text(cfg, lines):
    """input for the verified conservation monitor (coq/theories/Traces/Conserve.v): the item-movement
    events of a canonical output; gets carry the pulling node"""
    out = ["CASE monitor"]
    for i, e in enumerate(cfg["edges"]):
        out.append("ESRC %d %d" % (i, e["src"]))
    for l in lines:
        w = l.split()
        if w[0] in ("G", "P", "K", "D", "R"):
            out.append(l)
        elif w[0] == "T":
            out.append(l if len(w) == 5 else "%s %d" % (l, cfg["edges"][int(w[2])]["dst"]))
    out.append("END")
    return "\n".join(out) + "\n"


def run_monitor(cfgs, outputs):
    res = common.run_driver("".join(monitor_text(c, o) for c, o in zip(cfgs, outputs)))
    return [r[0] if r else "NONE" for r in res]


def gen_invalid(rng):
    """a valid configuration with exactly one invalid aspect injected"""
    for _ in range(50):
        cfg = gen_config(rng, with_fleet=True) if rng.random() < 0.7 else gen_config_sc(rng)
        kind = rng.choice(["bad_const_index", "bad_policy", "negative_delay", "cap_zero", "bad_mode", "nonblocking_zero_interarrival",
                           "bad_stream_index", "bad_stream_index", "isolated_node", "bad_in_index", "edge_negative_delay"])
        cfg["valid"] = False
        cfg["expect_reject"] = kind
        cand = [i for i, n in enumerate(cfg["nodes"]) if n["kind"] in ("source", "machine")]
        if kind == "bad_const_index":
            i = rng.choice(cand)
            n = cfg["nodes"][i]
            cfg["fault_node"] = i
            n["outsel"] = ("C", rng.choice([len(n["outs"]), len(n["outs"]) + 2, -1]))
        elif kind == "bad_stream_index":
            # a user callable / generator that answers an index outside [0, n) after a few valid answers
            i = rng.choice(cand)
            n = cfg["nodes"][i]
            cfg["fault_node"] = i
            k = len(n["outs"])
            good = [rng.randrange(k) for _ in range(rng.choice([0, 1, 3]))]
            n["outsel"] = ("S", good + [rng.choice([-1, -k, k, k + 1])])
            cfg["fault_after"] = len(good)
            if n["style"] == "const":
                n["style"] = "callable"
        elif kind == "isolated_node":
            # a node without the edges it needs: a further source / machine / sink that is connected to nothing
            k = rng.choice(["source", "machine", "sink"])
            proto = dict(next(n for n in cfg["nodes"] if n["kind"] == ("source" if k == "source" else "machine" if k == "machine" and
                                                                      any(m["kind"] == "machine" for m in cfg["nodes"]) else n["kind"])))
            proto.update(kind=k, ins=[], outs=[], insel=("FA",), outsel=("FA",), setup=0, blocking=True)
            if k != "source":
                proto["delays"] = [1]
            proto.pop("recipe", None); proto.pop("pallet", None); proto.pop("slow", None)
            cfg["nodes"].append(proto)
            cfg["fault_node"] = len(cfg["nodes"]) - 1
            cfg["order"].insert(rng.randrange(len(cfg["order"]) + 1), "N%d" % cfg["fault_node"])
            cfg["model_skip"] = True
        elif kind == "bad_in_index":
            ms = [i for i, n in enumerate(cfg["nodes"]) if n["kind"] == "machine"]
            if not ms:
                continue
            i = rng.choice(ms)
            n = cfg["nodes"][i]
            cfg["fault_node"] = i
            n["insel"] = ("C", rng.choice([len(n["ins"]), len(n["ins"]) + 1, -1]))
        elif kind == "edge_negative_delay":
            b = [i for i, e in enumerate(cfg["edges"]) if e["kind"] == "buffer"]
            if not b:
                continue
            i = rng.choice(b)
            e = cfg["edges"][i]
            cfg["fault_edge"] = i
            if rng.random() < 0.5:
                e["style"], e["delays"], cfg["fault_after"] = "const", [-1], 0
            else:
                e["style"], e["delays"], cfg["fault_after"] = rng.choice(["callable", "generator"]), [1, -2], 1
            cfg["model_skip"] = True
        elif kind == "bad_policy":
            cfg["fault_node"] = rng.choice(cand)
            cfg["nodes"][cfg["fault_node"]]["outsel"] = ("BAD",)
        elif kind == "negative_delay":
            cfg["fault_node"] = rng.choice(cand)
            n = cfg["nodes"][cfg["fault_node"]]
            n["delays"] = [-1] if n["kind"] == "machine" or n["blocking"] else [1, -2]
            if n["style"] == "const":
                n["delays"] = [-1]
            if n["kind"] == "source" and not n["blocking"] and n["delays"][0] == 0:
                continue
        elif kind == "cap_zero":
            cfg["edges"][rng.randrange(len(cfg["edges"]))]["cap"] = rng.choice([0, -1])
            cfg["model_skip"] = True
        elif kind == "bad_mode":
            b = [e for e in cfg["edges"] if e["kind"] == "buffer"]
            if not b:
                continue
            rng.choice(b)["mode"] = "FILO"
            cfg["model_skip"] = True
        else:
            srcs = [n for n in cfg["nodes"] if n["kind"] == "source"]
            n = rng.choice(srcs)
            # the documented domain of inter_arrival_time is "int or float": the float zeros count too
            n["blocking"], n["style"], n["delays"] = False, "const", [rng.choice([0, 0, 0.0, -0.0])]
            cfg["model_skip"] = True
        return cfg
    return cfg
