"""Search oracle for the store-level properties (C01, C02, C04, C05, C06, C07), evaluated on
*implementation* rows.  It is not part of any proof: it looks for a concrete failing history when a
proof obligation or the correspondence breaks, and on every run it double-checks that the
implementation's observable behaviour satisfies the statements the theorems make about the model.

It tracks, from the API-observable information only (tokens issued, tokens triggered, results of
calls), the status of every token; the store's lists are read only to evaluate the state
predicates the properties talk about (occupancy, waiting requests, available items)."""
from collections import Counter


def ids(f):
    return [int(x) for x in f.split(",") if x != ""]


def pairs(f):
    out = []
    for x in f.split(","):
        if x:
            a, b = x.split(":")
            out.append((int(a), int(b)))
    return out


class Oracle:
    def __init__(self, case):
        self.case = case
        self.p = case["model"] == "storep"
        self.kind = case["kind"]
        self.cap = case["cap"]
        self.lifo = case.get("mode") == "LIFO"
        self.tok = {}        # id -> dict(side, pid, prio, status, flt)
        self.inside = Counter()
        self.bound = {}      # get token -> item (expected binding)
        self.unres = []      # storep: oracle's service order of unreserved items
        self.order = []      # storeb: items in the order in which they became available
        self.viol = []
        self.prev = None
        self.now = 0
        self.ptime = {}

    def v(self, prop, i, msg):
        self.viol.append((prop, i, msg))

    def inside_items(self, row):
        return ids(row["items"]) + (ids(row["ready"]) if not self.p else [])

    def avail(self, row):
        return ids(row["items"]) if self.p else ids(row["ready"])

    def key(self, t):
        return (self.tok[t]["prio"], t)

    def fmatch(self, flt, it, now):
        k, r = flt
        if k == 0:
            return self.ptime.get(it, 0) + self.case.get("tdelay", 0) <= now
        return it % k == r

    def grant(self, i, t, row, before_items):
        info = self.tok.get(t)
        if info is None or info["status"] != "pending":
            self.v("C04", i, "token %d triggered while %s" % (t, info and info["status"]))
            return
        pend = [u for u, d in self.tok.items() if d["side"] == info["side"] and d["status"] == "pending"]
        m = min(pend, key=self.key)
        if m != t:
            self.v("C05", i, "token %d (prio %s) granted before token %d (prio %s)" %
                   (t, info["prio"], m, self.tok[m]["prio"]))
        info["status"] = "granted"
        if info["side"] == "get":
            # expected binding
            if self.p:
                cand = [x for x in self.unres if self.kind != "filter" or self.fmatch(info["flt"], x, self.now)]
                exp = cand[0] if cand else None
                if exp is not None:
                    self.unres.remove(exp)
            else:
                taken = set(self.bound.values())
                un = [x for x in self.order if x not in taken]
                exp = (un[-1] if self.lifo else un[0]) if un else None
            if exp is None:
                self.v("C02", i, "get token %d granted with no unreserved item available" % t)
            self.bound[t] = exp

    def step(self, i, op, row):
        k = op[0]
        res = row["res"]
        prev = self.prev
        state_fields = [f for f in row if f not in ("res", "trig", "extra")]
        unchanged = prev is not None and all(row[f] == prev.get(f) for f in state_fields)
        before_items = self.avail(prev) if prev else []
        wf = None
        if "now" in row and row["now"] != "":
            self.now = int(row["now"])
        if k in ("RPUT", "RGET"):
            if res.startswith("tok:"):
                t = int(res[4:])
                prio = op[2] if (self.kind in ("prio", "filter", "fleet", "slot")) else 0
                self.tok[t] = dict(side="put" if k == "RPUT" else "get", pid=op[1], prio=prio, status="pending",
                                   flt=(op[3], op[4]) if (k == "RGET" and len(op) > 4) else (1, 0))
            else:
                self.v("C07", i, "%s raised %s" % (k, res))
        elif k == "PUT":
            t = op[2]
            info = self.tok.get(t)
            wf = bool(info and info["side"] == "put" and info["status"] == "granted" and info["pid"] == op[1])
            if wf:
                info["status"] = "used"
                if res != "ok":
                    self.v("C01", i, "put with granted reservation %d failed: %s" % (t, res))
                else:
                    self.inside[op[3]] += 1
                    self.ptime[op[3]] = self.now
                    if self.p:
                        self.unres.append(op[3])
        elif k == "GET":
            t = op[2]
            info = self.tok.get(t)
            wf = bool(info and info["side"] == "get" and info["status"] == "granted" and info["pid"] == op[1])
            if wf:
                info["status"] = "used"
                exp = self.bound.pop(t, None)
                if not res.startswith("item:"):
                    self.v("C02", i, "get with granted reservation %d failed: %s" % (t, res))
                else:
                    x = int(res[5:])
                    if self.inside[x] <= 0:
                        self.v("C02", i, "get returned item %d which is not inside (never put or already returned)" % x)
                    else:
                        self.inside[x] -= 1
                    if exp is not None and x != exp:
                        self.v("C06", i, "get with token %d returned item %d, discipline binds item %d" % (t, x, exp))
        elif k in ("CPUT", "CGET"):
            t = op[1]
            info = self.tok.get(t)
            side = "put" if k == "CPUT" else "get"
            wf = bool(info and info["side"] == side and info["status"] in ("pending", "granted"))
            if wf:
                was = info["status"]
                info["status"] = "cancelled"
                if res != "ok":
                    self.v("C07", i, "%s of live token %d raised %s" % (k, t, res))
                if side == "get" and was == "granted":
                    x = self.bound.pop(t, None)
                    if self.p and x is not None:
                        self.unres.insert(0, x)
        if wf is False:
            if res != "err:RuntimeError":
                self.v("C07", i, "ill-formed %s %s was not rejected with RuntimeError: %s" % (k, list(op[1:]), res))
            if not unchanged and prev is not None:
                self.v("C07", i, "ill-formed %s changed the store" % k)
            if row["trig"]:
                self.v("C07", i, "ill-formed %s triggered tokens %s" % (k, row["trig"]))
        if not self.p:
            # availability order: first appearance in ready_items; retrieved items leave
            now_ready = ids(row["ready"])
            for x in now_ready:
                if x not in self.order:
                    self.order.append(x)
            self.order = [x for x in self.order if x in now_ready]
        # grants, in trigger order
        for t in ids(row["trig"]):
            self.grant(i, t, row, before_items)
        # ---- state predicates
        n_inside = len(self.inside_items(row))
        gput = [t for t, d in self.tok.items() if d["side"] == "put" and d["status"] == "granted"]
        gget = [t for t, d in self.tok.items() if d["side"] == "get" and d["status"] == "granted"]
        pput = [t for t, d in self.tok.items() if d["side"] == "put" and d["status"] == "pending"]
        pget = [t for t, d in self.tok.items() if d["side"] == "get" and d["status"] == "pending"]
        if n_inside + len(gput) > self.cap:
            self.v("C01", i, "items %d + granted put reservations %d > capacity %d" % (n_inside, len(gput), self.cap))
        if Counter(self.inside_items(row)) != +self.inside:
            self.v("C02", i, "contents %s differ from put-minus-got %s" %
                   (sorted(self.inside_items(row)), sorted((+self.inside).elements())))
        if len(gget) > len(self.avail(row)):
            self.v("C02", i, "%d granted get reservations but only %d available items" % (len(gget), len(self.avail(row))))
        if not self.p:
            b = [x for x in self.bound.values() if x is not None]
            if len(set(b)) != len(b):
                self.v("C02", i, "two granted get reservations bound to one item: %s" % self.bound)
        # C04 is a statement about the end of an API call / internal event
        if pput and n_inside + len(gput) < self.cap and self.kind not in ("belt", "slot"):
            self.v("C04", i, "put request(s) %s pending with %d free unit(s)" % (pput, self.cap - n_inside - len(gput)))
        if pput and self.kind in ("belt", "slot") and "stuck-put" in row.get("extra", ""):
            self.v("C04", i, "entry request(s) %s pending on the belt although its admission test accepts a request made now and none is granted" % (pput,))
        if pget and len(gget) < len(self.avail(row)):
            if self.kind != "filter":
                self.v("C04", i, "get request(s) %s pending with %d unreserved available item(s)" %
                       (pget, len(self.avail(row)) - len(gget)))
            else:
                head = min(pget, key=self.key)
                flt = self.tok[head]["flt"]
                if flt[0] != 0 and any(self.fmatch(flt, x, self.now) for x in self.unres):
                    self.v("C04", i, "filtered get request %d pending while a matching unreserved item is available" % head)
        if pget and self.kind == "filter" and "stuck-get" in row.get("extra", ""):
            self.v("C04", i, "retrieval request %s next in line still pending at the end of the instant although an unreserved "
                   "item satisfies its filter (the item has matured)" % (min(pget, key=self.key),))
        # token flags agree with the store's own lists
        lst = dict(putq=pput, putres=gput, getq=pget)
        for f, mine in lst.items():
            if sorted(ids(row[f])) != sorted(mine):
                self.v("C04", i, "store list %s=%s but triggered-flags say %s" % (f, row[f], sorted(mine)))
        gr = [a for a, _ in pairs(row["getres"])] if not self.p else ids(row["getres"])
        if sorted(gr) != sorted(gget):
            self.v("C04", i, "store list getres=%s but triggered-flags say %s" % (row["getres"], sorted(gget)))
        self.prev = row


def check(case, micro, rows):
    o = Oracle(case)
    for i, (op, row) in enumerate(zip(micro, rows)):
        o.step(i, tuple(op), row)
        if len(o.viol) > 20:
            break
    return o.viol


def nontrivial_tags(case, micro, rows):
    """which interesting situations this history reached (for the evidence's distinct_nontrivial)"""
    tags = set()
    cap = case["cap"]
    for op, r in zip(micro, rows):
        n = len(ids(r["items"])) + (len(ids(r.get("ready", ""))) if "ready" in r else 0)
        if r["putq"] and n + len(ids(r["putres"])) >= cap:
            tags.add("full+waiting-put")
        if r["getq"]:
            tags.add("waiting-get")
        g = r["getres"].count(",") + 1 if r["getres"] else 0
        if g >= 2:
            tags.add("two-granted-gets")
        if op[0] == "CGET" and r["res"] == "ok":
            tags.add("cancel-get")
        if op[0] == "CPUT" and r["res"] == "ok":
            tags.add("cancel-put")
        if r["res"].startswith("err:"):
            tags.add("rejected-call")
        if op[0] == "POP" and r["trig"]:
            tags.add("timer-grant")
    return tags
