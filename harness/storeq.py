"""Correspondence harness for PriorityReqStore (plain SimPy put/get requests with priorities)
against coq/theories/Stores/StoreQ.v.  The harness is the scheduler: a request op calls
store.put / store.get from outside; a POP processes one kernel event, which is a granted put
(-> PROCPUT: SimPy runs _trigger_get) or a granted get (-> PROCGET: _trigger_put)."""
import random, simpy
from . import common


class Impl:
    def __init__(self, cap):
        m = common.load("base.priority_req_store")
        self.env = simpy.Environment()
        self.st = m.PriorityReqStore(self.env, capacity=cap)
        self.toks, self.side = [], []

    def ids(self, q):
        return ",".join(str(self.toks.index(e)) for e in q)

    def state(self):
        return "|".join([",".join(str(x) for x in self.st.items), self.ids(self.st.put_queue), self.ids(self.st.get_queue)])

    def grants(self, before):
        eid = {id(q[3]): q[2] for q in self.env._queue}
        new = [i for i, e in enumerate(self.toks) if e.triggered and not before[i]]
        new.sort(key=lambda i: eid.get(id(self.toks[i]), -1))
        return ",".join(("P%d" % i) if self.side[i] == "put" else ("G%d:%s" % (i, self.toks[i].value)) for i in new)

    def do(self, op):
        """returns (model op words or None, grants string, error)"""
        st, k = self.st, op[0]
        before = [e.triggered for e in self.toks] + [False]
        err, m = "", None
        try:
            if k == "QPUT":
                e = st.put(op[2], priority=op[1])
                self.toks.append(e); self.side.append("put"); m = op
            elif k == "QGET":
                e = st.get(priority=op[1])
                self.toks.append(e); self.side.append("get"); m = op
            elif k in ("QCPUT", "QCGET"):
                e = self.toks[op[1]]
                q = st.put_queue if self.side[op[1]] == "put" else st.get_queue
                if not e.triggered and e in q:
                    e.cancel()
                    m = ("QCPUT" if self.side[op[1]] == "put" else "QCGET", op[1])
                before = before[:-1]
            elif k == "POP":
                before = before[:-1]
                if self.env._queue:
                    ev = self.env._queue[0][3]
                    self.env.step()
                    if ev in self.toks:
                        m = ("PROCPUT",) if self.side[self.toks.index(ev)] == "put" else ("PROCGET",)
        except Exception as ex:  # noqa
            err = "err:" + type(ex).__name__
        before = before[:len(self.toks)]
        return m, self.grants(before), err


def run_impl(case):
    im = Impl(case["cap"])
    micro, rows, mops = [], [], []
    for op in case["ops"]:
        op = tuple(op)
        m, g, err = im.do(op)
        micro.append(op)
        rows.append((err + g) + "|" + im.state())
        mops.append(m)
    return micro, rows, mops


def run_batch(cases):
    prepared, text = [], []
    for c in cases:
        micro, rows, mops = run_impl(c)
        prepared.append((c, micro, rows, mops))
        text.append("CASE storeq %d\n" % c["cap"] + "".join(" ".join(str(x) for x in m) + "\n" for m in mops if m) + "END\n")
    outs = common.run_driver("".join(text))
    res = []
    for (c, micro, rows, mops), lines in zip(prepared, outs):
        i, last, dis, mrows = 0, "|||", None, []
        for j, m in enumerate(mops):
            if m:
                last = lines[i]; i += 1
                mr = last
            else:
                mr = "|" + last.split("|", 1)[1]
            mrows.append(mr)
            if dis is None and mr != rows[j]:
                dis = (j, rows[j], mr)
        res.append(dict(case=c, micro=micro, impl=rows, model=mrows, dis=dis))
    return res


def oracle(case, micro, rows):
    """C05 on the implementation trace: every granted request is the (priority, arrival)-minimum of
    the requests waiting on its side at that moment"""
    viol, pend, prio, side, n = [], {"put": [], "get": []}, {}, {}, 0
    for i, (op, row) in enumerate(zip(micro, rows)):
        if op[0] in ("QPUT", "QGET"):
            s = "put" if op[0] == "QPUT" else "get"
            prio[n], side[n] = op[1], s
            pend[s].append(n)
            n += 1
        elif op[0] in ("QCPUT", "QCGET"):
            for s in pend:
                if op[1] in pend[s] and ("%s%d" % ("P" if s == "put" else "G", op[1])) not in row.split("|")[0]:
                    pend[s].remove(op[1])
        g = row.split("|")[0]
        if g.startswith("err:"):
            viol.append((i, "exception " + g)); break
        for x in [x for x in g.split(",") if x]:
            t = int(x[1:].split(":")[0])
            s = side[t]
            if t not in pend[s]:
                viol.append((i, "token %d granted but not waiting" % t)); continue
            best = min(pend[s], key=lambda u: (prio[u], u))
            if best != t:
                viol.append((i, "%s request %d (priority %s) served before request %d (priority %s)" % (s, t, prio[t], best, prio[best])))
            pend[s].remove(t)
    return viol


def gen_case(rng, n_ops):
    cap = rng.choice([1, 1, 2, 3])
    prios = rng.choice([[0], [0, 1], [-2, 0, 0, 3], [5, 5, 1], [-1, -1, -1, 2, 0]])
    ops, n, item = [], 0, 0
    for _ in range(n_ops):
        k = rng.choices(["QPUT", "QGET", "POP", "CANCEL"], [5, 5, 4, 1])[0]
        if k == "QPUT":
            item += 1
            ops.append(["QPUT", rng.choice(prios), item]); n += 1
        elif k == "QGET":
            ops.append(["QGET", rng.choice(prios)]); n += 1
        elif k == "POP":
            ops.append(["POP"])
        elif n:
            ops.append([rng.choice(["QCPUT", "QCGET"]), rng.randrange(n)])
    return dict(model="storeq", cap=cap, ops=ops)
