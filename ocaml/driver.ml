(* Driver around the extracted model (Model = coq/model.ml, produced by coq/extract/Extract.v).
   Reads cases from stdin, prints one canonical line per operation on stdout.
   Only parsing and printing live here; every decision is taken by extracted code. *)
open Datatypes
open BinNums
module L = Stdlib.List

let rec nat_of_int n = if n <= 0 then O else S (nat_of_int (n - 1))
let rec int_of_nat = function O -> 0 | S n -> 1 + int_of_nat n
let rec pos_of_int n =
  if n <= 1 then Coq_xH else if n land 1 = 0 then Coq_xO (pos_of_int (n lsr 1)) else Coq_xI (pos_of_int (n lsr 1))
let z_of_int n = if n = 0 then Z0 else if n > 0 then Zpos (pos_of_int n) else Zneg (pos_of_int (-n))
let rec int_of_pos = function Coq_xH -> 1 | Coq_xO p -> 2 * int_of_pos p | Coq_xI p -> 2 * int_of_pos p + 1
let int_of_z = function Z0 -> 0 | Zpos p -> int_of_pos p | Zneg p -> - (int_of_pos p)

let words s = L.filter (fun w -> w <> "") (String.split_on_char ' ' (String.trim s))
let ints l = String.concat "," (L.map string_of_int l)

(* ---------------------------------------------------------------- StoreP *)
module P = struct
  open StoreP
  let kind_of = function "req" -> KReq | "prio" -> KPrio | "filter" -> KFilter | k -> failwith ("kind " ^ k)
  let flt_of k r = if k = 0 then FAge else FMod (nat_of_int k, nat_of_int r)
  let op_of w =
    let i n = int_of_string (L.nth w n) in
    match L.hd w with
    | "RPUT" -> RPut (nat_of_int (i 1), z_of_int (i 2))
    | "RGET" -> RGet (nat_of_int (i 1), z_of_int (i 2), flt_of (i 3) (i 4))
    | "PUT" -> Put (nat_of_int (i 1), nat_of_int (i 2), nat_of_int (i 3))
    | "GET" -> Get (nat_of_int (i 1), nat_of_int (i 2))
    | "CPUT" -> CPut (nat_of_int (i 1))
    | "CGET" -> CGet (nat_of_int (i 1))
    | "RETRIG" -> Retrig
    | "TICK" -> Tick (z_of_int (i 1))
    | "SYNC" -> Sync (nat_of_int (i 1))
    | o -> failwith ("op " ^ o)
  let out_str = function
    | OTok t -> "tok:" ^ string_of_int (int_of_nat t)
    | OOk -> "ok"
    | OItem it -> "item:" ^ string_of_int (int_of_nat (fst it))
    | OErr ERuntime -> "err:RuntimeError"
    | OErr EIndex -> "err:IndexError"
  let toks q = ints (L.map (fun r -> int_of_nat r.r_tok) q)
  let line ((r, ts), s) =
    Printf.printf "%s|%s|%s|%s|%s|%s|%s|%s|%d\n" (out_str r)
      (ints (L.map int_of_nat ts))
      (ints (L.map (fun it -> int_of_nat (fst it)) s.items))
      (toks s.putq) (toks s.putres) (toks s.getq) (toks s.getres)
      (ints (L.map (fun it -> int_of_z (snd it)) s.items)) (int_of_z s.now)
  let case hdr ops =
    (* hdr: CASE storep <kind> <cap> <tdelay> *)
    let s0 = init (kind_of (L.nth hdr 2)) (nat_of_int (int_of_string (L.nth hdr 3)))
               (z_of_int (int_of_string (L.nth hdr 4))) in
    L.iter line (run_trace s0 (L.map op_of ops))
end

(* ---------------------------------------------------------------- StoreB *)
module B = struct
  open StoreB
  let kind_of = function "buffer" -> KBuffer | "fleet" -> KFleet | "belt" -> KBelt | "slot" -> KSlot | k -> failwith ("kind " ^ k)
  let mode_of = function "FIFO" -> FIFO | "LIFO" -> LIFO | k -> failwith ("mode " ^ k)
  let op_of w =
    let i n = int_of_string (L.nth w n) in
    match L.hd w with
    | "RPUT" -> RPut (nat_of_int (i 1), z_of_int (i 2))
    | "RGET" -> RGet (nat_of_int (i 1), z_of_int (i 2))
    | "PUT" -> Put (nat_of_int (i 1), nat_of_int (i 2), nat_of_int (i 3))
    | "GET" -> Get (nat_of_int (i 1), nat_of_int (i 2))
    | "CPUT" -> CPut (nat_of_int (i 1))
    | "CGET" -> CGet (nat_of_int (i 1))
    | "READY" -> Ready (nat_of_int (i 1))
    | "GATE" -> SetGate (i 1 <> 0)
    | "TRIGPUT" -> TrigPut
    | "SYNC" -> Sync (nat_of_int (i 1))
    | o -> failwith ("op " ^ o)
  let out_str = function
    | OTok t -> "tok:" ^ string_of_int (int_of_nat t)
    | OOk -> "ok"
    | OItem it -> "item:" ^ string_of_int (int_of_nat it)
    | OErr ERuntime -> "err:RuntimeError"
    | OErr EIndex -> "err:IndexError"
    | OErr EValue -> "err:ValueError"
  let toks q = ints (L.map (fun r -> int_of_nat r.r_tok) q)
  let line ((r, ts), s) =
    Printf.printf "%s|%s|%s|%s|%s|%s|%s|%s\n" (out_str r)
      (ints (L.map int_of_nat ts))
      (ints (L.map int_of_nat s.transit)) (ints (L.map int_of_nat s.ready))
      (toks s.putq) (toks s.putres) (toks s.getq)
      (String.concat "," (L.map (fun (r, it) -> Printf.sprintf "%d:%d" (int_of_nat r.r_tok) (int_of_nat it)) s.getres))
  let case hdr ops =
    (* hdr: CASE storeb <kind> <mode> <cap> *)
    let s0 = init (kind_of (L.nth hdr 2)) (mode_of (L.nth hdr 3)) (nat_of_int (int_of_string (L.nth hdr 4))) in
    L.iter line (run_trace s0 (L.map op_of ops))
end

(* ---------------------------------------------------------------- TBuffer (timed Buffer edge, C11) *)
module T = struct
  open StoreB
  open TBuffer
  let lens_str s =
    let l = Lens.lensB s in
    Printf.sprintf "%b,%b,%d" (SrcFragments.coq_Buffer_can_put l) (SrcFragments.coq_Buffer_can_get l)
      (int_of_z (SrcFragments.coq_Buffer_occupancy l))
  let state_str b =
    let s = b.st in
    Printf.sprintf "%s|%s|%s|%s|%s|%s|%d|%s"
      (ints (L.map int_of_nat s.transit)) (ints (L.map int_of_nat s.ready))
      (B.toks s.putq) (B.toks s.putres) (B.toks s.getq)
      (String.concat "," (L.map (fun (r, it) -> Printf.sprintf "%d:%d" (int_of_nat r.r_tok) (int_of_nat it)) s.getres))
      (int_of_z b.clock)
      (String.concat "," (L.map (fun (i, d) -> Printf.sprintf "%d@%d" (int_of_nat i) (int_of_z d)) b.timers))
  let case hdr ops =
    (* hdr: CASE tbuffer <mode> <cap> *)
    let b = ref (tinit (B.mode_of (L.nth hdr 2)) (nat_of_int (int_of_string (L.nth hdr 3)))) in
    let dead = ref false in
    L.iter (fun w ->
      if !dead then print_string "ILLEGAL\n" else
      let i n = int_of_string (L.nth w n) in
      match L.hd w with
      | "PROBE" -> Printf.printf "probe:%s||%s\n" (lens_str !b.st) (state_str !b)
      | _ ->
        let o = match L.hd w with
          | "TPUT" -> TPut (nat_of_int (i 1), nat_of_int (i 2), nat_of_int (i 3), z_of_int (i 4))
          | "FIRE" -> TFire (nat_of_int (i 1))
          | "IDLE" -> TIdle (z_of_int (i 1))
          | _ -> TApi (B.op_of w) in
        (match tstep !b o with
         | Some ((b', r), ts) -> b := b';
             Printf.printf "%s|%s|%s\n" (B.out_str r) (ints (L.map int_of_nat ts)) (state_str b')
         | None -> dead := true; print_string "ILLEGAL\n")) ops
end

(* ---------------------------------------------------------------- StoreQ (PriorityReqStore) *)
module Q = struct
  open StoreQ
  let op_of w =
    let i n = int_of_string (L.nth w n) in
    match L.hd w with
    | "QPUT" -> QPut (z_of_int (i 1), nat_of_int (i 2))
    | "QGET" -> QGet (z_of_int (i 1))
    | "PROCPUT" -> QProcPut
    | "PROCGET" -> QProcGet
    | "QCPUT" -> QCancelPut (nat_of_int (i 1))
    | "QCGET" -> QCancelGet (nat_of_int (i 1))
    | o -> failwith ("op " ^ o)
  let gstr = function GPut t -> Printf.sprintf "P%d" (int_of_nat t) | GGet (t, i) -> Printf.sprintf "G%d:%d" (int_of_nat t) (int_of_nat i)
  let toks q = ints (L.map (fun r -> int_of_nat r.q_tok) q)
  let case hdr ops =
    let s0 = qinit (nat_of_int (int_of_string (L.nth hdr 2))) in
    L.iter (fun (g, s) ->
      Printf.printf "%s|%s|%s|%s\n" (String.concat "," (L.map gstr g)) (ints (L.map int_of_nat s.qitems)) (toks s.qputq) (toks s.qgetq))
      (qrun_trace s0 (L.map op_of ops))
end

(* ---------------------------------------------------------------- Factory (L2) *)
module F = struct
  open Kernel
  open World
  open Factory
  let zlist w = if w = "-" then [] else L.map (fun x -> z_of_int (int_of_string x)) (String.split_on_char ',' w)
  let nlist w = if w = "-" then [] else L.map (fun x -> nat_of_int (int_of_string x)) (String.split_on_char ',' w)
  let policy_of w =
    if w = "FA" then PFirst else if w = "RR" then PRoundRobin else if w = "BAD" then PBad
    else if String.length w > 2 && String.sub w 0 2 = "C:" then PConst (z_of_int (int_of_string (String.sub w 2 (String.length w - 2))))
    else if String.length w > 2 && String.sub w 0 2 = "S:" then PStream (zlist (String.sub w 2 (String.length w - 2)))
    else failwith ("policy " ^ w)
  let rec zeros n = if n <= 0 then [] else Z0 :: zeros (n - 1)
  let node_of w =
    (* NODE kind setup blocking wcap insel outsel delays ins outs recipe *)
    let g n = L.nth w n in
    let kind = match g 1 with "source" -> NSource | "machine" -> NMachine | "sink" -> NSink
                            | "splitter" -> NSplitter | "combiner" -> NCombiner | k -> failwith k in
    let wcap = int_of_string (g 4) in
    let nts = match kind with NSource -> 3 | NMachine -> 6 | NSink -> 1 | _ -> 4 in
    let wcap = match kind with NSplitter | NCombiner -> 1 | _ -> wcap in
    { node0 with nk = kind; nsetup = z_of_int (int_of_string (g 2)); nblocking = (g 3 = "1");
      nwcap = nat_of_int wcap; ninsel = policy_of (g 5); noutsel = policy_of (g 6); ndelays = zlist (g 7);
      nins = nlist (g 8); nouts = nlist (g 9); nrecipe = nlist (g 10);
      ntstate = zeros nts; nocchist = (match kind with NMachine | NSplitter | NCombiner -> zeros (wcap + 1) | _ -> []);
      npallet = (L.length w > 11 && g 11 = "1"); nres = res_init (nat_of_int wcap);
      nlast = (match kind with NSink -> Some Z0 | _ -> None);
      nstate = O }
  let edge_of w =
    let g n = L.nth w n in
    match g 1 with
    | "buffer" ->
        (* EDGE buffer cap mode delays src dst *)
        { edge0 with ek = EBuffer; est = StoreB.init StoreB.KBuffer (B.mode_of (g 3)) (nat_of_int (int_of_string (g 2)));
          edelays = zlist (g 4); esrc = nat_of_int (int_of_string (g 5)); edst = nat_of_int (int_of_string (g 6)) }
    | "fleet" ->
        (* EDGE fleet cap fdelay transit src dst *)
        { edge0 with ek = EFleet; est = StoreB.init StoreB.KFleet StoreB.FIFO (nat_of_int (int_of_string (g 2)));
          efdelay = z_of_int (int_of_string (g 3)); eftransit = z_of_int (int_of_string (g 4));
          esrc = nat_of_int (int_of_string (g 5)); edst = nat_of_int (int_of_string (g 6)) }
    | k -> failwith ("edge " ^ k)
  let zs l = String.concat "," (L.map (fun z -> string_of_int (int_of_z z)) l)
  let ns l = String.concat "," (L.map (fun n -> string_of_int (int_of_nat n)) l)
  let crash_str = function
    | CAssert n -> Printf.sprintf "AssertionError@%d" (int_of_nat n)
    | CIndex n -> Printf.sprintf "IndexError@%d" (int_of_nat n)
    | CValue n -> Printf.sprintf "ValueError@%d" (int_of_nat n)
    | CRuntime n -> Printf.sprintf "RuntimeError@%d" (int_of_nat n)
    | CType n -> Printf.sprintf "TypeError@%d" (int_of_nat n)
    | CAttr n -> Printf.sprintf "AttributeError@%d" (int_of_nat n)
    | CFuel -> "FUEL"
    | CDoubleSucceed n -> Printf.sprintf "RuntimeError(succeed)@%d" (int_of_nat n)
  let i = int_of_nat and z = int_of_z
  let log_line = function
    | LGen (t, n, it) -> Printf.printf "G %d %d %d\n" (z t) (i n) (i it)
    | LPut (t, e, it) -> Printf.printf "P %d %d %d\n" (z t) (i e) (i it)
    | LGet (t, e, it, n) -> Printf.printf "T %d %d %d %d\n" (z t) (i e) (i it) (i n)
    | LDiscard (t, n, it) -> Printf.printf "D %d %d %d\n" (z t) (i n) (i it)
    | LRecv (t, n, it, _) -> Printf.printf "R %d %d %d\n" (z t) (i n) (i it)
    | LPack (t, n, pal, it) -> Printf.printf "K %d %d %d %d\n" (z t) (i n) (i pal) (i it)
    | LSel (n, o, idx) -> Printf.printf "S %d %d %d\n" (i n) (if o then 1 else 0) (i idx)
    | LDraw (n, wh, v) -> Printf.printf "W %d %d %d\n" (i n) (i wh) (z v)
  let case hdr lines =
    let t_end = z_of_int (int_of_string (L.nth hdr 2)) in
    let steps = nat_of_int (int_of_string (L.nth hdr 3)) in
    let nodes = L.map node_of (L.filter (fun w -> L.hd w = "NODE") lines) in
    let edges = L.map edge_of (L.filter (fun w -> L.hd w = "EDGE") lines) in
    let order = match L.filter (fun w -> L.hd w = "ORDER") lines with
      | o :: _ -> L.map (fun x -> (x.[0] = 'N', nat_of_int (int_of_string (String.sub x 1 (String.length x - 1))))) (L.tl o)
      | [] -> [] in
    let w0 = mk_world nodes edges order in
    let (w, fin) = run_until steps t_end w0 in
    L.iter log_line w.wlog;
    (match w.wcrash with Some c -> Printf.printf "CRASH %s\n" (crash_str c) | None -> ());
    if not fin then print_string "EXHAUSTED\n";
    L.iteri (fun k nd ->
      match finalize_node t_end nd with
      | None -> Printf.printf "NODE %d FINALIZE-ERROR gen=%d disc=%d procd=%d recv=%d\n" k (i nd.ngen) (i nd.ndisc) (i nd.nprocd) (i nd.nrecv)
      | Some f ->
        Printf.printf "NODE %d gen=%d disc=%d procd=%d recv=%d cycle=%d tstate=%s occ=%s sumproc=%d sumblk=%d\n" k
          (i f.ngen) (i f.ndisc) (i f.nprocd) (i f.nrecv) (z f.ncycle) (zs f.ntstate) (zs f.nocchist) (z f.nsumproc) (z f.nsumblk)) w.wnodes;
    L.iteri (fun k ed -> let f = finalize_edge t_end ed in
      Printf.printf "EDGE %d wsum=%d transit=%s ready=%s res=%d,%d,%d,%d\n" k (z f.ewsum) (ns f.est.StoreB.transit) (ns f.est.StoreB.ready)
        (L.length f.est.StoreB.putq) (L.length f.est.StoreB.putres) (L.length f.est.StoreB.getq) (L.length f.est.StoreB.getres)) w.wedges
end

(* ---------------------------------------------------------------- Conserve (verified C03 monitor) *)
module M = struct
  open World
  open Conserve
  let case _hdr lines =
    let esrc_tbl = Hashtbl.create 16 in
    let evs = ref [] in
    L.iter (fun w ->
      let i n = int_of_string (L.nth w n) in
      let nn n = nat_of_int (i n) and zz n = z_of_int (i n) in
      match L.hd w with
      | "ESRC" -> Hashtbl.replace esrc_tbl (i 1) (i 2)
      | "G" -> evs := LGen (zz 1, nn 2, nn 3) :: !evs
      | "P" -> evs := LPut (zz 1, nn 2, nn 3) :: !evs
      | "T" -> evs := LGet (zz 1, nn 2, nn 3, nn 4) :: !evs
      | "K" -> evs := LPack (zz 1, nn 2, nn 3, nn 4) :: !evs
      | "D" -> evs := LDiscard (zz 1, nn 2, nn 3) :: !evs
      | "R" -> evs := LRecv (zz 1, nn 2, nn 3, Z0) :: !evs
      | _ -> ()) lines;
    let esrc e = nat_of_int (try Hashtbl.find esrc_tbl (int_of_nat e) with Not_found -> -1) in
    let l = L.rev !evs in
    (* find the first rejected prefix *)
    let rec go m k = function
      | [] -> Printf.printf "ACCEPT %d src=%d edge=%d node=%d packed=%d disc=%d recv=%d\n" (L.length m)
                (int_of_nat (cnt is_src m)) (int_of_nat (cnt is_edge m)) (int_of_nat (cnt is_node m))
                (int_of_nat (cnt is_pal m)) (int_of_nat (cnt is_disc m)) (int_of_nat (cnt is_recv m))
      | ev :: r -> (match mstep esrc m ev with Some m' -> go m' (k + 1) r | None -> Printf.printf "REJECT %d\n" k) in
    go [] 0 l
end

(* ---------------------------------------------------------------- TFleet (timed Fleet edge, C14) *)
module TF = struct
  open StoreB
  open TFleet
  let state_str b =
    let s = b.fs in
    Printf.sprintf "%s|%s|%s|%s|%s|%s|%d|%s|%s"
      (ints (L.map int_of_nat s.transit)) (ints (L.map int_of_nat s.ready))
      (B.toks s.putq) (B.toks s.putres) (B.toks s.getq)
      (String.concat "," (L.map (fun (r, it) -> Printf.sprintf "%d:%d" (int_of_nat r.r_tok) (int_of_nat it)) s.getres))
      (int_of_z b.fclock) (ints (L.map int_of_nat b.intransit))
      (String.concat ";" (L.map (fun (bt, d) -> Printf.sprintf "%s@%d" (ints (L.map int_of_nat bt)) (int_of_z d)) b.trips))
  let case hdr ops =
    (* hdr: CASE tfleet <cap> <delay> <transit> *)
    let i n = int_of_string (L.nth hdr n) in
    let b = ref (finit (nat_of_int (i 2)) (z_of_int (i 3)) (z_of_int (i 4))) in
    let dead = ref false in
    L.iter (fun w ->
      if !dead then print_string "ILLEGAL\n" else
      let i n = int_of_string (L.nth w n) in
      if L.hd w = "PROBE" then begin
        let l = Lens.lensB !b.fs in
        Printf.printf "probe:%b,%b,%d||%s\n" (SrcFragments.coq_Fleet_can_put l) (SrcFragments.coq_Fleet_can_get l)
          (int_of_z (SrcFragments.coq_Fleet_occupancy l)) (state_str !b) end else
      let o = match L.hd w with
        | "LOAD" -> FLoad (nat_of_int (i 1), nat_of_int (i 2), nat_of_int (i 3))
        | "ACTIVATE" -> FActivate
        | "ARRIVE" -> FArrive
        | "IDLE" -> FIdle (z_of_int (i 1))
        | _ -> FApi (B.op_of w) in
      (match fstep !b o with
       | Some ((b', r), ts) -> b := b';
           Printf.printf "%s|%s|%s\n" (B.out_str r) (ints (L.map int_of_nat ts)) (state_str b')
       | None -> dead := true; print_string "ILLEGAL\n")) ops
end

(* ---------------------------------------------------------------- TBelt (timed conveyor belt stores, C12 / C13) *)
module TB = struct
  open TBelt
  let case hdr ops =
    (* hdr: CASE tbelt <cont|slot> <cap> <u> <D> <acc> *)
    let i n = int_of_string (L.nth hdr n) in
    let b = ref (binit (L.nth hdr 2 = "slot") (nat_of_int (i 3)) (z_of_int (i 4)) (z_of_int (i 5)) (i 6 = 1)) in
    let dead = ref false in
    L.iter (fun w ->
      if !dead then print_string "ILLEGAL\n" else
      let i n = int_of_string (L.nth w n) in
      if L.hd w = "PROBE" then
        Printf.printf "%s|%s|%s\n" (if gate !b (i 1 = 1) (i 2 = 1) then "grant" else "wait")
          (ints (L.map (fun x -> int_of_nat x.mid) !b.moving)) (ints (L.map int_of_nat !b.bready))
      else
      let o = match L.hd w with
        | "IDLE" -> BIdle (z_of_int (i 1))
        | "RSV" -> BRsv (i 1 = 1, i 2 = 1)
        | "PUT" -> BPut (nat_of_int (i 1))
        | "INT" -> BInt (nat_of_int (i 1))
        | "RESUME" -> BResume
        | "READY" -> BReady (nat_of_int (i 1))
        | "GET" -> BGet (nat_of_int (i 1))
        | x -> failwith ("tbelt op " ^ x) in
      (match bstep !b o with
       | Some (b', g) -> b := b';
           Printf.printf "%s|%s|%s\n" (match o with BRsv _ -> if g then "grant" else "wait" | _ -> "ok")
             (ints (L.map (fun x -> int_of_nat x.mid) b'.moving)) (ints (L.map int_of_nat b'.bready))
       | None -> dead := true;
           Printf.printf "ILLEGAL clock=%d moving=%s\n" (int_of_z !b.bclock)
             (String.concat ";" (L.map (fun x -> Printf.sprintf "%d:due%d%s" (int_of_nat x.mid) (int_of_z x.since + int_of_z x.rem)
                (match x.intr with Some _ -> "i" | None -> "")) !b.moving)))) ops
end

let () =
  let cur = ref None and ops = ref [] in
  let flush () =
    (match !cur with
     | None -> ()
     | Some hdr ->
         print_string "CASE\n";
         (match L.nth hdr 1 with
          | "storep" -> P.case hdr (L.rev !ops)
          | "storeb" -> B.case hdr (L.rev !ops)
          | "tbuffer" -> T.case hdr (L.rev !ops)
          | "storeq" -> Q.case hdr (L.rev !ops)
          | "factory" -> F.case hdr (L.rev !ops)
          | "monitor" -> M.case hdr (L.rev !ops)
          | "tfleet" -> TF.case hdr (L.rev !ops)
          | "tbelt" -> TB.case hdr (L.rev !ops)
          | m -> failwith ("model " ^ m));
         print_string "END\n");
    cur := None; ops := [] in
  (try
     while true do
       let l = input_line stdin in
       match words l with
       | [] -> ()
       | "CASE" :: _ as w -> flush (); cur := Some w
       | "END" :: _ -> flush ()
       | w -> ops := w :: !ops
     done
   with End_of_file -> flush ())
